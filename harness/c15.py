"""C15 — launch statistics list every launch/activity pair with exact durations and delay."""
from harness.common import precalls, assume_distinct, assume_nested_or_disjoint, sand, snot
from symx import tracegen as TG
from symx.engine import smax

ID = "C15"
MODULES = ["hta.trace_analysis"]
MUST_NOT_RAISE = True
BUDGET_S = {"quick": 300, "thorough": 1200}
HOST = {"L": "cudaLaunchKernel", "X": "cudaLaunchKernelExC", "Y": "cudaMemcpyAsync", "Z": "cudaMemsetAsync",
        "W": "cudaStreamSynchronize"}
KERNEL_LAUNCH = {"L", "X"}
MEM_LAUNCH = {"Y", "Z"}
BOUNDS = {
    "quick": "1 rank; 1..2 host runtime calls (all words over launch/launchExC/memcpyAsync/memsetAsync/streamSync) x "
             "0..2 device activities; correlation ids symbolic in [0,3] (per-side unique); symbolic Int ts/dur; "
             "include_memory_events in {False, True}",
    "thorough": "1..3 host calls x 0..3 device activities, ids in [0,4]; plus a 2-rank family",
}
EXPLANATION = ("Real TraceAnalysis.get_cuda_kernel_launch_stats (CudaKernelAnalysis.cuda_kernel_launch_stats) after real "
               "loading. Correlation ids are symbolic, so which call pairs with which activity is decided by the solver "
               "per path. Obligations: reported rows <-> pairs (host call h of a requested launch kind, device activity "
               "d, corr(h)=corr(d)) one-to-one; cpu_duration=h.dur, gpu_duration=d.dur, launch_delay=max(0,d.ts-h.ts-h.dur). "
               "Non-trivial path = at least one reported pair with launch_delay > 0 feasible.")
ASSUMPTIONS = ["WF: host calls nested-or-disjoint, correlation ids unique per side and >= 0 on runtime calls, device "
               "streams positive, event 0 a host operator", "JSON reading stubbed"]
STUBS = ["hta.common.trace_parser.parse_trace_dict", "Trace._validate_trace_files", "plotly", "logging"]


def skeletons(tier):
    import itertools
    out = []
    maxh, maxd, dom = (2, 2, 3) if tier == "quick" else (3, 3, 4)
    for nh in range(1, maxh + 1):
        for w in itertools.combinations_with_replacement("LXYZW", nh):
            w = "".join(w)
            for nd in range(0, maxd + 1):
                for mem in (False, True):
                    out.append({"id": f"{w}-d{nd}-mem{int(mem)}", "host": w, "ndev": nd, "ranks": 1,
                                "params": {"mem": mem, "dom": dom}})
    for w, mem in (("LY", False), ("LY", True), ("Y", False)):
        out.append({"id": f"{w}-d2-mem{int(mem)}-after-mem{int(not mem)}", "host": w, "ndev": 2, "ranks": 1,
                    "params": {"mem": mem, "dom": dom, "before": [not mem]}})
    for pre in ("queue", "idle", "temporal"):
        out.append({"id": f"L-d1-after-{pre}", "host": "L", "ndev": 1, "ranks": 1, "params": {"mem": False, "dom": dom, "pre": [pre]}})
    # two ranks whose (symbolic) correlation ids may coincide: one rank's ids must not leak into the other's table
    for w, mem in ([("LY", False), ("Y", True)] if tier == "quick" else [("LY", True), ("LY", False), ("LL", True), ("YW", False)]):
        out.append({"id": f"r2-{w}-d2-mem{int(mem)}", "host": w, "ndev": 2, "ranks": 2, "params": {"mem": mem, "dom": 2}})
        out.append({"id": f"r2rev-{w}-d2-mem{int(mem)}", "host": w, "ndev": 2, "ranks": 2,
                    "params": {"mem": mem, "dom": 2, "order": [1, 0]}})
    return out


def build(sk, r):
    ev = [TG.op("aten::mm", f"$r{r}_op_ts", f"$r{r}_op_dur")]
    hs, ds = [], []
    for i, ch in enumerate(sk["host"]):
        ev.append(TG.runtime(HOST[ch], f"$r{r}_h{i}_ts", f"$r{r}_h{i}_dur", corr=f"$r{r}_h{i}_c"))
        hs.append((ch, f"$r{r}_h{i}_ts", f"$r{r}_h{i}_dur", f"$r{r}_h{i}_c"))
    for i in range(sk["ndev"]):
        mem = i % 2 == 1
        ev.append(TG.kernel("Memcpy DtoD (Device -> Device)" if mem else "gemm_kernel", f"$r{r}_d{i}_ts",
                            f"$r{r}_d{i}_dur", stream=7 + 13 * (i % 2), corr=f"$r{r}_d{i}_c",
                            cat="gpu_memcpy" if mem else "kernel"))
        ds.append((f"$r{r}_d{i}_ts", f"$r{r}_d{i}_dur", f"$r{r}_d{i}_c"))
    return ev, hs, ds


def run(ctx):
    sk = ctx.sk
    dom = ctx.params["dom"]
    sk.setdefault("vars", {})
    events, H, D = {}, {}, {}
    for r in range(sk["ranks"]):
        ev, hs, ds = build(sk, r)
        for (_, _, _, c) in hs:
            sk["vars"][c[1:]] = ["int", 0, dom]
        for (_, _, c) in ds:
            sk["vars"][c[1:]] = ["int", 0, dom]
        events[r] = ctx.val(ev)
        H[r] = [(ch, ctx.val(ts), ctx.val(du), ctx.val(c)) for ch, ts, du, c in hs]
        D[r] = [(ctx.val(ts), ctx.val(du), ctx.val(c)) for ts, du, c in ds]
        assume_distinct(ctx, [h[3] for h in H[r]])
        assume_distinct(ctx, [d[2] for d in D[r]])
        assume_nested_or_disjoint(ctx, [(ctx.val(f"$r{r}_op_ts"), ctx.val(f"$r{r}_op_ts") + ctx.val(f"$r{r}_op_dur"))]
                                  + [(h[1], h[1] + h[2]) for h in H[r]])
    ta = ctx.open(events)
    mem = ctx.params["mem"]
    ranks = list(ctx.params.get("order", range(sk["ranks"])))
    precalls(ctx, ta)
    for earlier in ctx.params.get("before") or []:
        # earlier calls with other options on the same object (and in the same process): no option may stick
        try:
            ta.get_cuda_kernel_launch_stats(ranks=ranks, include_memory_events=earlier, visualize=False)
        except Exception as ex:       # noqa: BLE001
            if type(ex).__name__ in ("Unsupported", "HarnessError"):
                raise
    res = ta.get_cuda_kernel_launch_stats(ranks=ranks, include_memory_events=mem, visualize=False)
    ctx.prove(sorted(res.keys()) == sorted(ranks), "one-table-per-rank", {"ranks": sorted(res.keys())})
    anydelay = False
    for r in ranks:
        df = res[r]
        corr = ctx.cells(df["correlation"])
        cpu, gpu, delay = ctx.cells(df["cpu_duration"]), ctx.cells(df["gpu_duration"]), ctx.cells(df["launch_delay"])
        kinds = KERNEL_LAUNCH | (MEM_LAUNCH if mem else set())
        used = []
        for j in range(len(corr)):
            # the row must be explained by exactly one (h, d) pair; find it by value
            cands = []
            for hi, (ch, hts, hdu, hc) in enumerate(H[r]):
                for di, (dts, ddu, dc) in enumerate(D[r]):
                    if ch in kinds:
                        cands.append((hi, di, sand(hc == corr[j], dc == corr[j], cpu[j] == hdu, gpu[j] == ddu,
                                                   delay[j] == smax(0, dts - hts - hdu))))
            ok = False
            for hi, di, c in cands:
                ok = c if ok is False else (ok | c)
            ctx.prove(ok, "row-is-a-linked-pair-with-exact-values", {"rank": r, "row": j})
        # every expected pair is reported exactly once
        for hi, (ch, hts, hdu, hc) in enumerate(H[r]):
            for di, (dts, ddu, dc) in enumerate(D[r]):
                linked = hc == dc
                cnt = 0
                for j in range(len(corr)):
                    cnt = cnt + (corr[j] == hc)
                if ch in kinds:
                    ctx.prove(sand(snot(linked) | (cnt == 1)), "linked-pair-reported-once", {"rank": r, "h": hi, "d": di})
                else:
                    ctx.prove(snot(linked) | (cnt == 0), "other-calls-not-reported", {"rank": r, "h": hi, "d": di})
                if ch in kinds and ctx.mode == "sym":
                    anydelay = anydelay | sand(linked, dts - hts - hdu > 0)
        for hi, (ch, hts, hdu, hc) in enumerate(H[r]):
            if not D[r]:
                ctx.prove(len(corr) == 0, "no-device-no-rows", {"rank": r})
        nexp = 0
        for hi, (ch, hts, hdu, hc) in enumerate(H[r]):
            for di, (dts, ddu, dc) in enumerate(D[r]):
                if ch in kinds:
                    nexp = nexp + (hc == dc)
        ctx.prove(nexp == len(corr), "row-count", {"rank": r, "rows": len(corr)})
    if ctx.mode == "sym":
        ctx.nontrivial(anydelay)


def signature(label, sk, detail):
    return f"{ID}/{label}"
