"""Shared family and helpers for the critical-path properties C08, C09, C10, C20."""
from harness.common import sand, sor, snot
from symx import tracegen as TG

MODULES = ["hta.trace_analysis", "hta.analyzers.critical_path_analysis"]
TIE_MODE = "stable"
# node numbering / launch numbering sorts: the numbering is not observable by the obligations
TIE_STABLE_FUNCS = ("_create_event_nodes", "_get_cuda_runtime_calls_df", "_get_cuda_event_record_df",
                    "_get_cuda_stream_wait_event_df", "find_previous_launch", "find_next_launch")
# the sort in _create_event_nodes only fixes the numbering of the graph nodes (ids are opaque to every obligation and to
# the algorithms, which use the graph structure): not modelled, nodes keep the concatenation order
SORT_SKIP_FUNCS = ("_create_event_nodes",)
STUBS = ["hta.common.trace_parser.parse_trace_dict", "Trace._validate_trace_files", "Trace.write_raw_trace", "plotly",
         "logging"]
ASSUMPTIONS = ["the analysed window contains at least the first operator (an empty window makes the analysis raise "
               "AssertionError: outside the claim)", "simultaneous device rows are processed in the order a stable sort "
               "gives (adversarial tie orders of the unstable sort: outside the claim)", "well-formed host thread: operators contain their launch/sync calls strictly, sibling operators in index "
               "order (touching allowed); unique correlation ids; device streams positive; event 0 a host operator",
               "causally consistent: kernel.ts >= launch.ts; kernels of one stream run in launch order without overlap (launches "
               "of two host threads: in the order of the launch calls' start times, simultaneous kernel starts in file order); a "
               "blocking synchronize call ends no earlier than the kernels it waits for, and its device-side sync event "
               "ends with the call", "host events have positive duration (zero-duration host events are excluded from the "
               "graph by the analysis itself)", "JSON reading stubbed"]
S1, S2 = 7, 20

# structures: ops = list of operators; each operator: list of items, item = ("L", stream) launch+kernel on stream,
#             ("S", stream) cudaStreamSynchronize waiting for that stream, ("D",) cudaDeviceSynchronize
STRUCTS = {
    "A": [[("L", S1)]],
    "B": [[("L", S1), ("L", S1)]],
    "C": [[("L", S1), ("L", S2)]],
    "D": [[("L", S1)], [("L", S1)]],
    "E": [[("L", S1), ("S", S1)]],
    "F": [[("L", S1), ("L", S2), ("D",)]],
    "G": [[("L", S1)], [("L", S2), ("S", S1)]],
    "H": [[("L", S1), ("L", S1), ("L", S2)]],
    "I": [[]],
    "J": [[("L", S1), ("S", S1), ("L", S1)]],
    # CUDA events: R = cudaEventRecord after the launches on that stream; W = cudaStreamWaitEvent on a stream for the
    # record at item index k; Q = cudaEventSynchronize (host waits) for the record at item index k
    "K": [[("L", S1), ("R", S1), ("W", S2, 1), ("L", S2)]],
    "M": [[("L", S1), ("R", S1), ("Q", 1)]],
    "N": [[("L", S1), ("R", S1), ("L", S1), ("W", S2, 1), ("L", S2)]],
    # nested operators
    "P": [[("N", [("L", S1)])]],
    "Q": [[("N", [("L", S1)]), ("N", [("L", S1)])]],
    "T": [[("L", S1), ("N", [("L", S2)]), ("S", S1)]],
    # a cudaEventRecord issued before anything was launched on its stream: the later wait has nothing to wait for
    "U": [[("R", S1), ("L", S1), ("Q", 0)]],
    "V": [[("R", S1), ("L", S1), ("W", S2, 0), ("L", S2)]],
    # a user annotation (no graph nodes of its own) between an operator and its launch call / around two calls
    "X": [[("A", [("L", S1)])]],
    "Z": [[("A", [("L", S1)]), ("L", S1)]],
    # a second host thread ("@", tid, items): it launches on the stream on which the first thread waits for an event
    "W2": [[("L", S1), ("R", S1), ("W", S2, 1), ("L", S2)], ("@", 300, [("L", S2)])],
    # two host threads launching on one stream
    "L2": [[("L", S1)], ("@", 300, [("L", S1)])],
}
QUICK = ["A", "B", "C", "D", "E", "I"]
# two-thread structures: the first thread's timeline is pinned (a causally consistent concrete schedule), the second
# thread's events are free; otherwise the interleavings of two free threads do not fit any budget
PINNED = {
    "W2": {"o0_ts": 0, "o0_dur": 100, "o0l0_ts": 2, "o0l0_dur": 2, "o0k0_ts": 10, "o0k0_dur": 50, "o0r1_ts": 6, "o0r1_dur": 2,
           "o0w2_ts": 12, "o0w2_dur": 4, "o0y2_ts": 13, "o0y2_dur": 3, "o0l3_ts": 20, "o0l3_dur": 4, "o0k3_ts": 70,
           "o0k3_dur": 10},
}


def pinned_vars(name):
    return {k: ["int", v, v] for k, v in PINNED.get(name, {}).items()}


def build(struct, step=True):
    ev, H, K, Y, allops = [], [], [], [], []

    def host(name, tag, cat="cpu_op", corr=None):
        i = len(ev)
        tid = state["tid"]
        if corr is None:
            ev.append(TG.op(name, f"${tag}_ts", f"${tag}_dur", cat=cat, tid=tid))
        else:
            ev.append(TG.runtime(name, f"${tag}_ts", f"${tag}_dur", corr=corr, tid=tid))
        h = {"id": i, "ts": f"${tag}_ts", "dur": f"${tag}_dur", "name": name, "kind": "host", "stream": -1, "tid": tid,
             "children": [], "graph": cat in ("cpu_op", "cuda_runtime", "cuda_driver")}
        H.append(h)
        return h

    state = {"corr": 50, "first": True, "tid": TG.HOST_TID}

    def add_op(name, tag, items, cat="cpu_op"):
        O = host(name, tag, cat=cat)
        allops.append(O)
        if state["first"]:
            state["first"] = False
            if step:
                host("ProfilerStep#3", "step", cat="user_annotation")
        for j, it in enumerate(items):
            corr = state["corr"]
            if it[0] == "N":
                # a nested operator with its own items
                O["children"].append(add_op("aten::linear", f"{tag}n{j}", it[1]))
            elif it[0] == "A":
                O["children"].append(add_op("nccl:all_reduce", f"{tag}a{j}", it[1], cat="user_annotation"))
            elif it[0] == "R":
                Rr = host("cudaEventRecord", f"{tag}r{j}", corr=corr)
                Rr["record"] = {"corr": corr, "stream": it[1], "after": [k for k in K if k["stream"] == it[1]]}
                O["children"].append(Rr)
                O.setdefault("items", {})[j] = Rr
                state["corr"] += 1
            elif it[0] in ("W", "Q"):
                rec = O["items"][it[2] if it[0] == "W" else it[1]]["record"]
                nm = "cudaStreamWaitEvent" if it[0] == "W" else "cudaEventSynchronize"
                S = host(nm, f"{tag}w{j}", corr=corr)
                O["children"].append(S)
                i = len(ev)
                st = it[1] if it[0] == "W" else -1
                ev.append(TG.kernel("Stream Wait Event" if it[0] == "W" else "Event Sync", f"${tag}y{j}_ts",
                                    f"${tag}y{j}_dur", stream=st, corr=corr, cat="cuda_sync",
                                    wait_on_stream=rec["stream"], wait_on_cuda_event_record_corr_id=rec["corr"]))
                y = {"id": i, "ts": f"${tag}y{j}_ts", "dur": f"${tag}y{j}_dur", "kind": "sync", "stream": st, "call": S,
                     "what": it, "waits": list(rec["after"][-1:]), "event": True}
                S["syncev"] = y
                if it[0] == "Q":
                    S["sync"] = it
                else:
                    S["waitevent"] = {"stream": it[1], "src": list(rec["after"][-1:])}
                Y.append(y)
                state["corr"] += 1
            elif it[0] == "L":
                L = host("cudaLaunchKernel", f"{tag}l{j}", corr=corr)
                O["children"].append(L)
                i = len(ev)
                name_k = "gemm_kernel" if (len(K)) % 2 == 0 else "ncclKernel_AllReduce_RING_LL_Sum_float"
                ev.append(TG.kernel(name_k, f"${tag}k{j}_ts", f"${tag}k{j}_dur", stream=it[1], corr=corr))
                k = {"id": i, "ts": f"${tag}k{j}_ts", "dur": f"${tag}k{j}_dur", "kind": "kernel", "stream": it[1],
                     "launch": L, "name": name_k}
                L["kernel"] = k
                K.append(k)
                state["corr"] += 1
            else:
                nm = "cudaStreamSynchronize" if it[0] == "S" else "cudaDeviceSynchronize"
                S = host(nm, f"{tag}s{j}", corr=corr)
                S["sync"] = it
                O["children"].append(S)
                i = len(ev)
                st = it[1] if it[0] == "S" else -1
                ev.append(TG.kernel("Stream Sync" if it[0] == "S" else "Context Sync", f"${tag}y{j}_ts", f"${tag}y{j}_dur",
                                    stream=st, corr=corr, cat="cuda_sync"))
                y = {"id": i, "ts": f"${tag}y{j}_ts", "dur": f"${tag}y{j}_dur", "kind": "sync", "stream": st, "call": S,
                     "what": it, "waits": [k for k in K if it[0] == "D" or k["stream"] == it[1]]}
                S["syncev"] = y
                Y.append(y)
                state["corr"] += 1
        return O

    ops = []
    for oi, items in enumerate(struct):
        if isinstance(items, tuple) and items[0] == "@":
            state["tid"], items = items[1], items[2]
        else:
            state["tid"] = TG.HOST_TID
        ops.append(add_op("aten::mm" if oi % 2 == 0 else "aten::add", f"o{oi}", items))
    return ev, H, K, Y, ops, allops


def prepare(ctx, struct, step=True, pmode="free"):
    """instantiate, assume structure + causality, return (events, H, K, Y, ops, P)"""
    ev, H, K, Y, ops, allops = build(struct, step)
    events = ctx.val(ev)
    for x in H + K + Y:
        x["ts"], x["dur"] = ctx.val(x["ts"]), ctx.val(x["dur"])
        x["end"] = x["ts"] + x["dur"]
    P = next((h for h in H if h["name"].startswith("ProfilerStep")), None)
    for h in H:
        ctx.assume(h["dur"] > 0)
    for O in allops:
        prev = None
        for c in O["children"]:
            ctx.assume(sand(O["ts"] < c["ts"], c["end"] < O["end"]))
            if prev is not None:
                ctx.assume(prev["end"] <= c["ts"])
            prev = c
    for tid in sorted({o["tid"] for o in ops}):
        mine = [o for o in ops if o["tid"] == tid]
        for a, b in zip(mine, mine[1:]):
            ctx.assume(a["end"] <= b["ts"])
    if P is not None:
        # the step annotation and the operators are properly nested or disjoint
        for n, O in enumerate(ops):
            inside = sand(P["ts"] <= O["ts"], O["end"] <= P["end"])
            if pmode == "all" or n == 0:
                ctx.assume(inside)          # the window holds at least the first operator
            else:
                ctx.assume(sor(inside, O["end"] <= P["ts"], P["end"] <= O["ts"]))
    for k in K:
        ctx.assume(k["ts"] >= k["launch"]["ts"])
        ctx.assume(k["dur"] >= 0)
    bystream = {}
    for k in K:
        bystream.setdefault(k["stream"], []).append(k)
    for ks in bystream.values():
        for n, a in enumerate(ks):
            for b in ks[n + 1:]:
                if a["launch"]["tid"] == b["launch"]["tid"]:
                    if b is ks[n + 1] or True:
                        ctx.assume(a["end"] <= b["ts"])
                else:
                    # launched by different threads: the stream runs them in launch order (either order on a tie)
                    la, lb = a["launch"]["ts"], b["launch"]["ts"]
                    ctx.assume(sor(sand(la <= lb, a["end"] <= b["ts"]), sand(lb <= la, b["end"] <= a["ts"])))
                    # simultaneous starts: file order (the stated stable-tie assumption of the critical-path checks)
                    ctx.assume(sor(a["ts"] != b["ts"], a["end"] <= b["ts"]))
    if struct is STRUCTS.get("W2"):
        # shape of the family (the times inside it are free): the second thread's launch call starts between the start of
        # the first thread's cudaStreamWaitEvent and the first thread's next launch on the waiting stream
        wait = next(h for h in H if h["name"] == "cudaStreamWaitEvent")
        lb = next(h for h in H if h["name"] == "cudaLaunchKernel" and h["tid"] != wait["tid"])
        la2 = [h for h in H if h["name"] == "cudaLaunchKernel" and h["tid"] == wait["tid"]][-1]
        ctx.assume(sand(wait["ts"] <= lb["ts"], lb["ts"] <= la2["ts"]))
    for y in Y:
        S = y["call"]
        ctx.assume(sand(y["ts"] >= S["ts"], y["end"] == S["end"], y["ts"] <= y["end"]))
        if "waitevent" in S:
            # cudaStreamWaitEvent returns at once; the kernels launched later on that stream wait on the device
            for O in allops:
                if S in O["children"]:
                    later = [c for c in O["children"][O["children"].index(S) + 1:] if "kernel" in c
                             and c["kernel"]["stream"] == S["waitevent"]["stream"]]
                    for c in later:
                        for k in S["waitevent"]["src"]:
                            ctx.assume(k["end"] <= c["kernel"]["ts"])
            continue
        for k in y["waits"]:
            ctx.assume(k["end"] <= S["end"])
    return events, H, K, Y, ops, P


def analysed(H, K, Y, lo, hi):
    """event id -> condition 'the event is a node of the graph' for a window [lo, hi] (None = whole trace)."""
    out = {}
    for h in H:
        if not h["graph"]:
            continue
        c = h["dur"] > 0
        if lo is not None:
            c = sand(c, h["ts"] >= lo, h["ts"] <= hi)
        out[h["id"]] = c
    for k in list(K) + [y for y in Y if y["stream"] != -1]:
        L = k["launch"] if "launch" in k else k["call"]
        c = L["dur"] > 0
        if lo is not None:
            c = sand(c, L["ts"] >= lo, L["ts"] <= hi)
        out[k["id"]] = c
    return out


class _NxProxy:
    """networkx with dag_longest_path replaced by 'some source->sink path' (no weight comparisons): used by the
    checks whose subject is not the path computation itself (C08, C20); C09/C10 run the real function."""

    def __init__(self, real):
        self._real = real

    def __getattr__(self, n):
        return getattr(self._real, n)

    def dag_longest_path(self, g, weight="weight", default_weight=1, topo_order=None):
        if len(g) == 0:
            return []
        order = list(self._real.topological_sort(g))
        src = next(n for n in order if g.in_degree(n) == 0 and g.out_degree(n) > 0) if any(
            g.out_degree(n) > 0 for n in order) else order[0]
        path = [src]
        while g.out_degree(path[-1]) > 0:
            path.append(next(iter(g.successors(path[-1]))))
        return path


def run_analysis(ctx, struct, annotation="ProfilerStep", instance_id=0, zero_launch_edges=False, step=True, pmode="free",
                 real_longest_path=True):
    import os
    events, H, K, Y, ops, P = prepare(ctx, struct, step, pmode)
    if ctx.mode == "sym":
        CPA = ctx.mods["hta.analyzers.critical_path_analysis"]
        import networkx as _nx
        CPA.nx = _nx if real_longest_path else _NxProxy(_nx)
        # any hash consistent with == is a valid hash: leave the (symbolic) weight out, so that putting edges into
        # sets does not fork on "are these two weights equal"
        CPA.CPEdge.__hash__ = lambda self: hash((self.begin, self.end, self.type))
    if zero_launch_edges:
        os.environ["CRITICAL_PATH_ADD_ZERO_WEIGHT_LAUNCH_EDGE"] = "1"
    else:
        os.environ.pop("CRITICAL_PATH_ADD_ZERO_WEIGHT_LAUNCH_EDGE", None)
    ta = ctx.open({0: events})
    m = ta.t.min_ts
    res = ta.critical_path_analysis(rank=0, annotation=annotation, instance_id=instance_id)
    os.environ.pop("CRITICAL_PATH_ADD_ZERO_WEIGHT_LAUNCH_EDGE", None)
    return {"ta": ta, "m": m, "res": res, "events": events, "H": H, "K": K, "Y": Y, "ops": ops, "P": P}


def edge_objects(g):
    return [g.edges[u, v]["object"] for u, v in g.edges]


def all_paths(g):
    """all source -> sink paths of the (concrete) DAG as node lists"""
    succ = {n: list(g.successors(n)) for n in g.nodes}
    pred = {n: list(g.predecessors(n)) for n in g.nodes}
    sources = [n for n in g.nodes if not pred[n]]
    out = []

    def rec(n, path):
        if len(out) > 4000:
            return
        if not succ[n]:
            out.append(list(path))
            return
        for s in succ[n]:
            path.append(s)
            rec(s, path)
            path.pop()
    for s in sources:
        rec(s, [s])
    return out
