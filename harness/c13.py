"""C13 — call-graph attributes (depth, height, kernel totals) agree with the tree."""
from harness.common import assume_nested_or_disjoint, sand, sor, snot
from symx import tracegen as TG
from symx.engine import smax, smin

ID = "C13"
MODULES = ["hta.trace_analysis", "hta.common.trace_call_graph"]
MUST_NOT_RAISE = True
BUDGET_S = {"quick": 480, "thorough": 1200}
TIE_MODE = "stable"
MAIN_TID, BWD_TID = 100, 200
BOUNDS = {
    "quick": "1 rank, main thread with 1 operator and 0..2 launch calls (each linked to a "
             "kernel on one of 2 streams), optionally one unlinked kernel; optional autograd thread with 1..2 top-level "
             "operators (one launching a kernel) with or without a '## backward ##' annotation on the main thread; all "
             "ts/dur symbolic Int (nesting decided by the solver), loaded through TraceAnalysis' loader (shifted times)",
    "thorough": "up to 3 operators and 2 launches on the main thread, 2 autograd operators, a second autograd thread (no "
                "linking expected)",
}
EXPLANATION = ("Real CallGraph(trace, ranks) (trace_call_graph._build_call_stacks/_connect_stacks/_normalize_stack_columns, "
               "trace_call_stack.CallStackGraph._link_cpu_and_gpu/_compute_depth/_compute_height/_add_kernel_info_to_cpu_ops/"
               "update_parent_of_first_layer_nodes) on traces loaded by the real loader. Obligations per row: host event's "
               "parent = innermost enclosing event of its thread (or, for top-level autograd operators inside a main-thread "
               "backward / ProfilerStep annotation when exactly one main and one autograd thread exist, that annotation); "
               "device activity's parent = its linked launch call; depth = parent depth + 1; height = 1 + tallest child "
               "(device 0, childless host 1); num_kernels / kernel_dur_sum / first_kernel_start / last_kernel_end / "
               "kernel_span = count / sum / min start / max end / difference over device descendants (0,0,-1,-1,0 if none). "
               "Non-trivial path = an operator with >= 2 device descendants, or an attached autograd operator.")
ASSUMPTIONS = ["WF per host thread (nested or disjoint), unique correlation ids, device streams positive, event 0 a host "
               "operator; kernel.ts >= launch.ts is NOT assumed", "unstable pre-sort ties taken as stable (the comparator decides the order, "
               "see C03)", "JSON reading stubbed"]
STUBS = ["hta.common.trace_parser.parse_trace_dict", "Trace._validate_trace_files", "plotly", "logging"]


def skeletons(tier):
    out = []
    mains = ["o", "ol", "oll", "olu"] if tier == "quick" else ["o", "ol", "oll", "olu", "ool", "olul"]
    for m in mains:
        out.append({"id": f"main-{m}", "main": m, "bwd": "", "params": {"bwdanno": False, "step": False}})
    bw = [("o", "a", False), ("o", "a", True), ("o", "A", False), ("ol", "a", False)] if tier == "quick" else [
        ("o", "a", False), ("o", "a", True), ("o", "A", False), ("o", "A", True), ("ol", "a", False), ("ol", "aA", False),
        ("o", "aa", True)]
    for m, b, anno in bw:
        out.append({"id": f"main-{m}-bwd-{b}-anno{int(anno)}", "main": m, "bwd": b,
                    "params": {"bwdanno": anno, "step": True}})
    out.append({"id": "main-o-bwd-a-anno0-second-rank", "main": "o", "bwd": "a", "params": {"bwdanno": False, "step": True, "lead": True}})
    if tier == "thorough":
        out.append({"id": "main-o-bwd-a-anno1-second-rank", "main": "o", "bwd": "a", "params": {"bwdanno": True, "step": True, "lead": True}})
        out.append({"id": "main-o-bwd-A-anno0-second-rank", "main": "o", "bwd": "A", "params": {"bwdanno": False, "step": True, "lead": True}})
    out.append({"id": "main-ol-rebuild", "main": "ol", "bwd": "", "params": {"bwdanno": False, "step": False, "rebuild": 1}})
    # event 0 starts at the (concrete) origin, so the loader's shift is 0 and the 130 far-away operators stay concrete
    out.append({"id": "main-ol-pad130-rebuild", "main": "ol", "bwd": "", "vars": {"m0_ts": ["int", 0, 0]},
                "params": {"bwdanno": False, "step": False, "rebuild": 1, "pad": 130}})
    if tier == "thorough":
        out.append({"id": "main-o-bwd-a-two-bwd-threads", "main": "o", "bwd": "a",
                    "params": {"bwdanno": True, "step": True, "bwd2": True}})
    return out


def build(sk):
    """events + description.  main word: o = operator, l = launch+kernel, u = unlinked kernel.
    bwd word: a = autograd operator, A = autograd operator launching a kernel."""
    ev, H, D = [], [], []

    def host(name, tag, tid, cat="cpu_op", corr=None):
        i = len(ev)
        if corr is None:
            e = TG.op(name, f"${tag}_ts", f"${tag}_dur", tid=tid, cat=cat)
        else:
            e = TG.runtime(name, f"${tag}_ts", f"${tag}_dur", corr=corr, tid=tid)
        ev.append(e)
        h = {"id": i, "tid": tid, "ts": f"${tag}_ts", "dur": f"${tag}_dur", "name": name, "corr": corr}
        H.append(h)
        return h

    def dev(tag, stream, corr, launch):
        i = len(ev)
        ev.append(TG.kernel("gemm_kernel", f"${tag}_ts", f"${tag}_dur", stream=stream, corr=corr))
        D.append({"id": i, "ts": f"${tag}_ts", "dur": f"${tag}_dur", "launch": launch})

    # the first character of the main word is an operator: event 0 of the file (Kineto)
    if sk["params"].get("step"):
        pass
    if False:
        pass
    if sk["params"].get("bwdanno") and False:
        host("## backward ##", "banno", MAIN_TID, cat="user_annotation")
    corr = 50
    for k, ch in enumerate(sk["main"]):
        if k == 1 or (k == 0 and len(sk["main"]) == 1):
            pass
        if ch == "o":
            host("aten::mm", f"m{k}", MAIN_TID)
            if k == 0:
                for j in range(sk["params"].get("pad", 0)):
                    # concrete, far-away sibling operators: they only push the ids of the later events beyond 127
                    i = len(ev)
                    ev.append(TG.op("aten::pad", 2 ** 42 + 10 * j, 5, tid=MAIN_TID))
                    H.append({"id": i, "tid": MAIN_TID, "ts": 2 ** 42 + 10 * j, "dur": 5, "name": "aten::pad", "corr": None,
                              "pad": True})
                if sk["params"].get("step"):
                    host("ProfilerStep#7", "step", MAIN_TID, cat="user_annotation")
                if sk["params"].get("bwdanno"):
                    host("## backward ##", "banno", MAIN_TID, cat="user_annotation")
        elif ch == "l":
            h = host("cudaLaunchKernel", f"m{k}", MAIN_TID, corr=corr)
            dev(f"mk{k}", 7 + 13 * (k % 2), corr, h)
            corr += 1
        else:
            dev(f"mu{k}", 7, corr, None)
            corr += 1
    for k, ch in enumerate(sk["bwd"]):
        host("autograd::engine::evaluate_function: MmBackward0", f"b{k}", BWD_TID)
        if ch == "A":
            h = host("cudaLaunchKernel", f"bl{k}", BWD_TID, corr=corr)
            dev(f"bk{k}", 7, corr, h)
            corr += 1
    if sk["params"].get("bwd2"):
        host("autograd::engine::evaluate_function: AddBackward0", "c0", 300)
    return ev, H, D


def run(ctx):
    sk = ctx.sk
    ev, H, D = build(sk)
    events = {0: ctx.val(ev)}
    for x in H + D:
        x["ts"], x["dur"] = ctx.val(x["ts"]), ctx.val(x["dur"])
        x["end"] = x["ts"] + x["dur"]
    for tid in sorted({h["tid"] for h in H}):
        assume_nested_or_disjoint(ctx, [(h["ts"], h["end"]) for h in H if h["tid"] == tid])
    for d in D:
        if d["launch"] is not None:
            pass      # kernel.ts >= launch.ts is not assumed: the quantifier does not ask for causal consistency
    R = 0
    if ctx.params.get("lead"):
        # "one or several ranks": the rank under test is the second rank of one CallGraph; the first rank (concrete
        # times) has a main thread with a profiler step and an autograd thread of its own
        lead = [TG.op("aten::mm", 5, 10, tid=MAIN_TID), TG.op("ProfilerStep#7", 0, 200, tid=MAIN_TID, cat="user_annotation"),
                TG.op("aten::add", 20, 10, tid=MAIN_TID),
                TG.op("autograd::engine::evaluate_function: AddBackward0", 40, 10, tid=BWD_TID)]
        events = {0: lead, 1: events[0]}
        R = 1
    ta = ctx.open(events)
    m = ta.t.min_ts
    if ctx.mode == "sym":
        CG = ctx.mods["hta.common.trace_call_graph"].CallGraph
    else:
        from hta.common.trace_call_graph import CallGraph as CG
    for _ in range(1 + int(ctx.params.get("rebuild", 0))):
        # HTA builds a CallGraph per analysis call on the same Trace object: the stack columns written by an earlier
        # build must not disturb a later one
        CG(ta.t, ranks=[0, 1] if R else [0])
    df = ta.t.get_trace(R)
    idx = [int(x) for x in ctx.cells(df["index"])]
    col = {c: dict(zip(idx, ctx.cells(df[c]))) for c in ["parent", "depth", "height", "num_kernels", "kernel_dur_sum",
                                                        "kernel_span", "first_kernel_start", "last_kernel_end"]}
    ctx.prove(sorted(idx) == sorted(x["id"] for x in H + D), "all-events-present", {"idx": sorted(idx)})
    byid = {x["id"]: x for x in H + D}
    hostids = {h["id"] for h in H}
    par = {i: int(col["parent"][i]) for i in idx}
    # ---- which annotation kind attaches the autograd thread ---------------------------------------------
    tids = sorted({h["tid"] for h in H})
    bwd_threads = [t for t in tids if any("autograd::" in h["name"] for h in H if h["tid"] == t)]
    link = len(bwd_threads) == 1
    annos = [h for h in H if h["name"].startswith("## backward ##")] or [h for h in H if h["name"].startswith("ProfilerStep#")]

    def contains(a, b):
        ident = sand(a["ts"] == b["ts"], a["end"] == b["end"])
        return sand(a["ts"] <= b["ts"], b["end"] <= a["end"], sor(snot(ident), a["id"] < b["id"]))

    nontriv = False
    for h in H:
        if h["id"] not in par:
            continue
        p = par[h["id"]]
        d = {"event": h["id"], "parent": p}
        # pads lie beyond every symbolic span (ts, dur <= 2^40 < 2^42) and are pairwise disjoint: they neither contain
        # nor are contained in anything, so they are left out of the candidate sets
        same = [x for x in H if x["tid"] == h["tid"] and x is not h and not x.get("pad") and not h.get("pad")]
        cands = [(x, sand(contains(x, h), x["dur"] > 0)) for x in same]
        attach = [sand(a["ts"] <= h["ts"], h["end"] <= a["end"]) for a in annos] if (link and h["tid"] == bwd_threads[0]) \
            else []
        if p < 0:
            no_enclosing = snot(sor(*[c for _, c in cands])) if cands else True
            no_attach = snot(sor(*attach)) if attach else True
            ctx.prove(sor(h["dur"] == 0, sand(no_enclosing, no_attach)), "host-parent", d)
        elif p in hostids and byid[p]["tid"] == h["tid"]:
            P = byid[p]
            ok = sand(contains(P, h), P["dur"] > 0)
            for x, c in cands:
                if x is not P:
                    ok = sand(ok, sor(snot(c), contains(x, P)))
            ctx.prove(sor(h["dur"] == 0, ok), "host-parent", d)
            ctx.prove(sor(h["dur"] > 0, sand(P["ts"] <= h["ts"], h["ts"] <= P["end"])), "zero-duration-host-parent", d)
        else:
            # attached to a main-thread annotation
            ok = False
            for a, c in zip(annos, attach):
                if a["id"] == p:
                    top = snot(sor(*[c2 for _, c2 in cands])) if cands else True
                    ok = sand(c, top)
            ctx.prove(ok, "autograd-operator-attached-only-within-annotation", d)
            nontriv = True
    for dv in D:
        if dv["id"] not in par:
            continue
        want = dv["launch"]["id"] if dv["launch"] is not None else -1
        ctx.prove(par[dv["id"]] == want, "device-parent-is-linked-launch", {"event": dv["id"], "parent": par[dv["id"]]})
    # ---- depth / height / kernel aggregates from the reported tree ------------------------------------------
    children = {}
    for i, p in par.items():
        children.setdefault(p, []).append(i)

    def depth_of(i, guard=0):
        p = par[i]
        if p < 0 or p not in par or guard > 20:
            return 0
        return depth_of(p, guard + 1) + 1

    def height_of(i, guard=0):
        if i not in hostids:
            return 0
        hs = [height_of(c, guard + 1) for c in children.get(i, [])] if guard < 20 else []
        return 1 + max(hs) if hs else 1

    def dev_desc(i, guard=0):
        out = []
        for c in children.get(i, []):
            if c in hostids:
                if guard < 20:
                    out.extend(dev_desc(c, guard + 1))
            else:
                out.append(byid[c])
        return out

    for i in idx:
        x = byid[i]
        d = {"event": i}
        if i in hostids or par[i] >= 0:
            ctx.prove(int(col["depth"][i]) == depth_of(i), "depth-is-parent-depth-plus-one", dict(d, got=int(col["depth"][i])))
            ctx.prove(int(col["height"][i]) == height_of(i), "height", dict(d, got=int(col["height"][i])))
        if i in hostids:
            ks = dev_desc(i)
            if ks:
                s, first, last = 0, ks[0]["ts"] - m, ks[0]["end"] - m
                for k in ks:
                    s = s + k["dur"]
                    first, last = smin(first, k["ts"] - m), smax(last, k["end"] - m)
                want = (len(ks), s, first, last, last - first)
            else:
                want = (0, 0, -1, -1, 0)
            got = tuple(col[c][i] for c in ["num_kernels", "kernel_dur_sum", "first_kernel_start", "last_kernel_end",
                                            "kernel_span"])
            ctx.prove(sand(*[g == w for g, w in zip(got, want)]), "kernel-aggregates", dict(d, n=len(ks)))
            if len(ks) >= 2:
                nontriv = True
    if ctx.mode == "sym" and (nontriv or len(sk["main"]) < 2):
        ctx.nontrivial(True)


def signature(label, sk, detail):
    return f"{ID}/{label}"
