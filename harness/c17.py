"""C17 — trace diff counts and durations are exact; change classes partition the names."""
from harness.common import assume_nested_or_disjoint, sand, sor, snot
from symx import tracegen as TG
from symx.engine import site

ID = "C17"
MODULES = ["hta.trace_analysis", "hta.trace_diff"]
MUST_NOT_RAISE = True
BUDGET_S = {"quick": 420, "thorough": 1200}
LONG = "void gemm<float>(int)"       # shortens to "gemm", colliding with the kernel named "gemm"
NAMES = {"A": ("aten::mm", "user_annotation"), "a": ("aten::mm", "cpu_op"), "b": ("aten::add", "cpu_op"),
         "g": ("gemm", "kernel"), "G": (LONG, "kernel")}      # "A": the same name under a second category
BOUNDS = {
    "quick": "two traces, 1 rank each, 1..2 profiler steps, 17 selected pairs of 1..2 events per trace over {2 operator names, 2 kernel names "
             "(one shortening onto the other)} placed anywhere by symbolic Int times; device filter CPU/GPU/ALL; long and "
             "short names; default and explicit iteration selection; self-comparison",
    "thorough": "all pairs of 6 words of 1..2 events x 3 device filters x name modes, 2 steps, self-comparison, "
                "2 ranks in the test trace, one pair of 3-event traces, 8 call histories on shared LabeledTrace objects",
}
EXPLANATION = ("Real TraceDiff.compare_traces / ops_diff (LabeledTrace.extract_ops, get_ops_summary) on two Trace objects "
               "parsed by the real parser. Iteration membership is decided by symbolic times. Obligations: one row per name "
               "with a selected event in either trace and no others; counts and total durations equal those of the selected "
               "events; diffs = test - control; the five classes are pairwise disjoint, cover every row and match their "
               "definitions; self-comparison gives only 'unchanged' and zero diffs. Non-trivial path = a name whose counts "
               "differ between the traces.")
ASSUMPTIONS = ["WF host thread, disjoint steps (kernel.ts >= launch.ts is NOT assumed)", "selected iterations exist in the trace",
               "JSON reading stubbed; process pool replaced by an in-process pool (map in input order)"]
STUBS = ["hta.common.trace_parser.parse_trace_dict", "Trace._validate_trace_files", "multiprocessing pool", "plotly",
         "logging"]
STEP0 = 3


def _sk(wc, wt, dev="ALL", short=False, nsteps=1, iters="default", self_=False, **kw):
    d = {"id": f"{wc}|{wt}-{dev}-s{int(short)}-st{nsteps}-{iters}" + ("-self" if self_ else "") + (
        f"-r{kw['test_ranks']}sel{''.join(map(str, kw.get('test_sel', [])))}" if "test_ranks" in kw else ""), "wc": wc, "wt": wt,
         "nsteps": nsteps, "params": {"dev": dev, "short": short, "iters": iters, "self": self_}}
    d.update(kw)
    return d


def skeletons(tier):
    if tier == "quick":
        return [_sk("a", "a"), _sk("a", "g"), _sk("a", "g", "CPU"), _sk("a", "g", "GPU"), _sk("g", "g"),
                _sk("a", "ab"), _sk("a", "aa"), _sk("aa", "a"), _sk("a", "ag"), _sk("a", "ag", "CPU"),
                _sk("g", "gG"), _sk("g", "gG", short=True), _sk("gG", "g", short=True),
                _sk("a", "a", nsteps=2, iters="all", nsteps_t=1), _sk("g", "a", nsteps=2, iters="all", nsteps_t=1),
                _sk("a", "a", nsteps=2, self_=True), _sk("ag", "ag", self_=True), _sk("aA", "a"), _sk("a", "aA"),
                _sk("a", "a", test_ranks=3, test_sel=[0, 2], same_ranks=True),
                dict(_sk("a", "ab"), id="a|ab-same-labels", labels=["run", "run"]),
                dict(_sk("ag", "a"), id="ag|a-same-labels", labels=["run", "run"]),
                dict(_sk("a", "ag"), id="a|ag-labels", labels=["before", "after"]),
                # histories of calls on the same LabeledTrace objects (rank and iteration numbers overlap in value)
                dict(_sk("a", "a", nsteps=1, nsteps_t=2, test_ranks=2, same_ranks=True), id="hist-a|a-r01i2-r0i12", step0=1,
                     history=[[[0, 1], [2]], [[0], [1, 2]]]),
                dict(_sk("a", "a", nsteps=1, nsteps_t=2, test_ranks=2, same_ranks=True), id="hist-a|a-r0i1-r1i2-r0i1",
                     step0=1, history=[[[0], [1]], [[1], [2]], [[0], [1]]])]
    out = []
    words = ["a", "g", "ab", "ag", "gG", "aa", "aA"]
    for wc in words:
        for wt in words:
            for dev in ("ALL", "CPU", "GPU"):
                for short in (False, True):
                    if short and "G" not in wc + wt:
                        continue
                    out.append(_sk(wc, wt, dev, short))
    for wc in ["a", "g", "ag", "aa"]:
        out.append(_sk(wc, wc, nsteps=2, iters="all"))
        out.append(_sk(wc, wc, nsteps=2 if len(wc) < 2 else 1, self_=True))
    out.append(_sk("ag", "ag", test_ranks=2))
    out.append(_sk("a", "g", test_ranks=3, test_sel=[0, 2]))
    out.append(_sk("a", "a", test_ranks=3, test_sel=[1, 2]))
    out.append(_sk("abg", "agG", short=True))
    for w in ("a", "ag"):
        for h in ([[[0, 1], [2]], [[0], [1, 2]]], [[[0], [1]], [[1], [2]], [[0], [1]]], [[[0], [1, 2]], [[1], [1, 2]]],
                  [[[1], [2]], [[1, 2], []]][:1] + [[[0, 1], [1, 2]]]):
            out.append(dict(_sk("a", w, nsteps=1, nsteps_t=2, test_ranks=2, same_ranks=(w != "a")), id=f"hist-a|{w}-" + "-".join(
                "r" + "".join(map(str, a)) + "i" + "".join(map(str, b)) for a, b in h), step0=1, history=h))
    return out


def build(tag, word, nsteps, r=0, step0=STEP0):
    p = f"{tag}{r}"
    ev = [TG.op("aten::zeros", f"${p}o_ts", f"${p}o_dur")]
    items = [{"name": "aten::zeros", "stream": -1, "ts": f"${p}o_ts", "dur": f"${p}o_dur", "launch": None}]
    steps = []
    for s in range(nsteps):
        nm = f"ProfilerStep#{step0 + s}"
        ev.append(TG.step(step0 + s, f"${p}s{s}_ts", f"${p}s{s}_dur"))
        d = {"name": nm, "stream": -1, "ts": f"${p}s{s}_ts", "dur": f"${p}s{s}_dur", "k": step0 + s, "launch": None}
        steps.append(d)
        items.append(d)
    corr = 50
    for i, ch in enumerate(word):
        name, cat = NAMES[ch]
        if cat in ("cpu_op", "user_annotation"):
            ev.append(TG.op(name, f"${p}e{i}_ts", f"${p}e{i}_dur", cat=cat))
            items.append({"name": name, "stream": -1, "ts": f"${p}e{i}_ts", "dur": f"${p}e{i}_dur", "launch": None})
        else:
            ev.append(TG.runtime("cudaLaunchKernel", f"${p}l{i}_ts", f"${p}l{i}_dur", corr=corr))
            L = {"name": "cudaLaunchKernel", "stream": -1, "ts": f"${p}l{i}_ts", "dur": f"${p}l{i}_dur", "launch": None}
            items.append(L)
            ev.append(TG.kernel(name, f"${p}e{i}_ts", f"${p}e{i}_dur", stream=7, corr=corr))
            items.append({"name": name, "stream": 7, "ts": f"${p}e{i}_ts", "dur": f"${p}e{i}_dur", "launch": L})
            corr += 1
    return ev, items, steps


def prep(ctx, tag, word, nsteps, nranks=1, same=False, step0=STEP0):
    events, allitems, allsteps = {}, {}, {}
    for r in range(nranks):
        # same=True: every rank carries the same (symbolic) times, so the ranks add no further case splits
        ev, items, steps = build(tag, word, nsteps, 0 if same else r, step0)
        events[r] = ctx.val(ev)
        for x in items:
            x["ts"], x["dur"] = ctx.val(x["ts"]), ctx.val(x["dur"])
        host = [x for x in items if x["stream"] == -1]
        assume_nested_or_disjoint(ctx, [(h["ts"], h["ts"] + h["dur"]) for h in host])
        for a in range(len(steps)):
            for b in range(a + 1, len(steps)):
                ctx.assume(sor(steps[a]["ts"] + steps[a]["dur"] <= steps[b]["ts"],
                               steps[b]["ts"] + steps[b]["dur"] <= steps[a]["ts"]))
        for x in items:
            if x["launch"] is not None:
                pass      # kernel.ts >= launch.ts is not assumed: the quantifier does not ask for causal consistency

        def host_iter(h, steps=steps):
            v = -1
            for s in steps:
                v = site(sand(s["ts"] <= h["ts"], h["ts"] < s["ts"] + s["dur"]), s["k"], v)
            return v
        for x in items:
            x["iter"] = host_iter(x["launch"]) if x["launch"] is not None else (host_iter(x) if x["stream"] == -1 else -1)
        allitems[r], allsteps[r] = items, steps
    return events, allitems, allsteps


def summarize(items_by_rank, ranks, iters, dev, short, shorten):
    """name -> (count, duration) over the selected events (symbolic)."""
    out = {}
    for r in ranks:
        for x in items_by_rank[r]:
            if dev == "CPU" and x["stream"] != -1:
                continue
            if dev == "GPU" and x["stream"] == -1:
                continue
            sel = sor(*[x["iter"] == k for k in iters])
            key = shorten(x["name"]) if short else x["name"]
            c, d = out.get(key, (0, 0))
            out[key] = (c + site(sel, 1, 0), d + site(sel, x["dur"], 0))
    return out


def verify(ctx, df, want_c, want_t, tag):
    names = [str(x) for x in ctx.cells(df.index)]
    ctx.prove(len(set(names)) == len(names), tag + "one-row-per-name", {"names": names})
    cols = {c: ctx.cells(df[c]) for c in ["Control_counts", "Test_counts", "Control_total_duration",
                                          "Test_total_duration", "diff_counts", "diff_duration"]}
    for n in sorted(set(want_c) | set(want_t)):
        cc, cd = want_c.get(n, (0, 0))
        tcnt, td = want_t.get(n, (0, 0))
        if n in names:
            j = names.index(n)
            d = {"name": n}
            ctx.prove(sand(cols["Control_counts"][j] == cc, cols["Test_counts"][j] == tcnt), tag + "counts", d)
            ctx.prove(sand(cols["Control_total_duration"][j] == cd, cols["Test_total_duration"][j] == td),
                      tag + "durations", d)
            ctx.prove(sand(cols["diff_counts"][j] == tcnt - cc, cols["diff_duration"][j] == td - cd), tag + "diffs", d)
        else:
            ctx.prove(sand(cc == 0, tcnt == 0), tag + "occurring-name-has-a-row", {"name": n})
    for n in names:
        ctx.prove(n in want_c or n in want_t, tag + "no-foreign-rows", {"name": n})


def run(ctx):
    sk = ctx.sk
    P = ctx.params
    if ctx.mode == "sym":
        TD = ctx.mods["hta.trace_diff"]
        shorten = ctx.mods["hta.utils.utils"].shorten_name
    else:
        import hta.trace_diff as TD
        from hta.utils.utils import shorten_name as shorten
    ntr = sk.get("test_ranks", 1)
    step0 = sk.get("step0", STEP0)
    ev_c, it_c, st_c = prep(ctx, "c", sk["wc"], sk["nsteps"], step0=step0)
    if P["self"]:
        ev_t, it_t, st_t = ev_c, it_c, st_c
    else:
        ev_t, it_t, st_t = prep(ctx, "t", sk["wt"], sk.get("nsteps_t", sk["nsteps"]), ntr, sk.get("same_ranks", False), step0=step0)
    if ctx.mode == "sym":
        tc = ctx.open(ev_c, load=False).t
        tt = tc if P["self"] else ctx.open(ev_t, load=False).t
    else:
        import os
        base = ctx.outdir
        ctx.outdir = os.path.join(base, "control")
        tc = ctx.open(ev_c, load=False).t
        ctx.outdir = os.path.join(base, "test")
        tt = tc if P["self"] else ctx.open(ev_t, load=False).t
    dev = getattr(TD.DeviceType, P["dev"])
    all_iters = [step0 + s for s in range(sk["nsteps"])]
    if "history" in sk:
        # several calls on the same LabeledTrace objects: every answer must be the one of its own selection
        ltc, ltt = TD.LabeledTrace("Control", t=tc), TD.LabeledTrace("Test", t=tt)
        for n, (tr, ti) in enumerate(sk["history"]):
            df = TD.TraceDiff.compare_traces(ltc, ltt, device_type=dev, use_short_name=P["short"], control_rank=[0],
                                             control_iteration=all_iters[:1], test_rank=list(tr), test_iteration=list(ti))
            verify(ctx, df, summarize(it_c, [0], all_iters[:1], P["dev"], P["short"], shorten),
                   summarize(it_t, list(tr), list(ti), P["dev"], P["short"], shorten), f"call{n}:")
        if ctx.mode == "sym":
            ctx.nontrivial(True)
        return
    if P["iters"] == "all":
        ci = list(all_iters)
        ti = [step0 + s for s in range(sk.get("nsteps_t", sk["nsteps"]))]
        kw = {"control_iteration": ci, "test_iteration": ti}
    else:
        ci = ti = all_iters[:1]
        kw = {}
    test_ranks = list(sk.get("test_sel", range(ntr)))
    if ntr > 1:
        kw["test_rank"] = test_ranks
    if sk.get("labels"):
        # LabeledTrace objects with user-chosen labels (equal labels are accepted: the library renames one and warns)
        tc_, tt_ = TD.LabeledTrace(sk["labels"][0], t=tc), TD.LabeledTrace(sk["labels"][1], t=tt)
        od_first = TD.TraceDiff.ops_diff(tc_, tt_, device_type=dev, **kw) if not P["short"] else None
        tc, tt = tc_, tt_
    df = TD.TraceDiff.compare_traces(tc, tt, device_type=dev, use_short_name=P["short"], **kw)
    if sk.get("labels"):
        # the count/duration columns carry the (possibly renamed) labels: map them back to the generic names
        cols_ = list(df.columns)
        lc, lt = tc.label, tt.label
        df = df.rename(columns={f"{lc}_counts": "Control_counts", f"{lt}_counts": "Test_counts",
                                f"{lc}_total_duration": "Control_total_duration",
                                f"{lt}_total_duration": "Test_total_duration"})
        ctx.prove(lc != lt and len(set(cols_)) == len(cols_), "labels-distinct-after-the-call", {"columns": cols_})
    want_c = summarize(it_c, [0], ci, P["dev"], P["short"], shorten)
    want_t = summarize(it_t, test_ranks if not P["self"] else [0], ti, P["dev"], P["short"], shorten)
    names = [str(x) for x in ctx.cells(df.index)]
    ctx.prove(len(set(names)) == len(names), "one-row-per-name", {"names": names})
    cols = {c: ctx.cells(df[c]) for c in ["Control_counts", "Test_counts", "Control_total_duration",
                                          "Test_total_duration", "diff_counts", "diff_duration",
                                          "counts_change_categories"]}
    nontriv = False
    for n in sorted(set(want_c) | set(want_t)):
        cc, cd = want_c.get(n, (0, 0))
        tcnt, td = want_t.get(n, (0, 0))
        if n in names:
            j = names.index(n)
            d = {"name": n}
            ctx.prove(sand(cols["Control_counts"][j] == cc, cols["Test_counts"][j] == tcnt), "counts", d)
            ctx.prove(sand(cols["Control_total_duration"][j] == cd, cols["Test_total_duration"][j] == td), "durations", d)
            ctx.prove(sand(cols["diff_counts"][j] == tcnt - cc, cols["diff_duration"][j] == td - cd), "diffs", d)
            sign = cols["counts_change_categories"][j]
            ctx.prove(sor(sand(sign == "+", tcnt > cc), sand(sign == "-", tcnt < cc), sand(sign == "=", tcnt == cc))
                      if isinstance(sign, str) else False, "change-sign", d)
            ctx.prove(sor(cc > 0, tcnt > 0), "row-only-for-occurring-names", d)
            if ctx.mode == "sym":
                nontriv = sor(nontriv, sand(cc != tcnt, cc > 0, tcnt > 0))
        else:
            ctx.prove(sand(cc == 0, tcnt == 0), "occurring-name-has-a-row", {"name": n})
    for n in names:
        ctx.prove(n in want_c or n in want_t, "no-foreign-rows", {"name": n})
    # ---- ops_diff: five classes partition the rows and follow their definitions -------------
    if not P["short"]:
        od = TD.TraceDiff.ops_diff(tc, tt, device_type=dev, **kw) if not sk.get("labels") else od_first
        cls_of = {}
        for k, lst in od.items():
            for n in lst:
                cls_of.setdefault(str(n), []).append(k)
        ctx.prove(sorted(od.keys()) == ["added", "decreased", "deleted", "increased", "unchanged"], "five-classes", None)
        for n in names:
            ks = cls_of.get(n, [])
            ctx.prove(len(ks) == 1, "classes-disjoint-and-covering", {"name": n, "classes": ks})
            if len(ks) == 1:
                cc = want_c.get(n, (0, 0))[0]
                tcnt = want_t.get(n, (0, 0))[0]
                defs = {"added": sand(cc == 0, tcnt > 0), "deleted": sand(cc > 0, tcnt == 0),
                        "increased": sand(cc > 0, tcnt > cc), "decreased": sand(tcnt > 0, tcnt < cc),
                        "unchanged": sand(tcnt > 0, tcnt == cc)}
                ctx.prove(defs[ks[0]], "class-definition", {"name": n, "class": ks[0]})
                if P["self"]:
                    ctx.prove(ks[0] == "unchanged", "self-comparison-only-unchanged", {"name": n})
        for n in cls_of:
            ctx.prove(n in names, "class-member-is-a-row", {"name": n})
    if P["self"]:
        for j, n in enumerate(names):
            ctx.prove(sand(cols["diff_counts"][j] == 0, cols["diff_duration"][j] == 0), "self-comparison-zero-diff",
                      {"name": n})
    if ctx.mode == "sym":
        ctx.nontrivial(nontriv if (set(sk["wc"]) & set(sk["wt"]) and sk["wc"] != sk["wt"]) else True)


def signature(label, sk, detail):
    return f"{ID}/{label}"
