"""C09 — the reported critical path is a maximum-weight path of the graph."""
from harness import cp_common as CP
from harness.common import sand, sor, snot
from symx.engine import smax, smin

ID = "C09"
MODULES = CP.MODULES
MUST_NOT_RAISE = True
TIE_MODE = CP.TIE_MODE
TIE_STABLE_FUNCS = CP.TIE_STABLE_FUNCS
SORT_SKIP_FUNCS = CP.SORT_SKIP_FUNCS
STUBS = CP.STUBS
ASSUMPTIONS = CP.ASSUMPTIONS + ["what-if: every edge weight replaced by an arbitrary non-negative integer (fresh solver "
                                "variable) before critical_path() is called again; not all weights zero"]
BUDGET_S = {"quick": 540, "thorough": 1200}
BOUNDS = {
    "quick": "graphs of 6 structures (0..2 launch/kernel pairs, a stream synchronisation) over the whole-trace and the "
             "ProfilerStep window, real networkx dag_longest_path on symbolic weights; what-if: ALL edges of the graphs of 4 "
             "structures re-weighted with fresh unbounded non-negative Int variables",
    "thorough": "all 10 structures, both windows, zero-weight launch edges on/off; what-if on 7 structures",
}
EXPLANATION = ("Real CPGraph.critical_path (networkx dag_longest_path, edge-set reconstruction) on every graph built by the real "
               "analysis. Obligations: the reported node list is a connected edge sequence from a source to a sink; its "
               "weight >= the weight of EVERY source->sink path of the (structurally concrete) DAG, enumerated; weight <= "
               "makespan of the analysed events; critical_path_events_set / critical_path_edges_set are exactly the path's "
               "events / edges. What-if clause: all edge weights replaced by fresh symbolic non-negative integers, "
               "critical_path() recomputed on the real object, same obligations: decides optimality for all re-weightings "
               "of each structure. Non-trivial path = the DAG has >= 2 source->sink paths.")


def skeletons(tier):
    out = []

    def add(n, anno, step, mode, z=False):
        out.append({"id": f"{n}-{anno or 'all'}-{mode}-z{int(z)}", "struct": n,
                    "params": {"anno": anno, "inst": 0 if anno else None, "step": step, "mode": mode, "zero": z}})
    if tier == "quick":
        for n in ("I", "A", "B", "C", "E", "D"):
            add(n, "", False, "orig")
        for n in ("A", "B", "E"):
            add(n, "ProfilerStep", True, "orig")
        for n in ("A", "B", "C", "E"):
            add(n, "", False, "whatif")
        return out
    for n in CP.STRUCTS:
        for z in (False, True):
            add(n, "", False, "orig", z)
        add(n, "ProfilerStep", True, "orig")
    for n in ("A", "B", "C", "D", "E", "F", "J"):
        add(n, "", False, "whatif")
    return out


def check_path(ctx, g, tag, makespan=None):
    nodes = [int(n) for n in g.critical_path_nodes]
    W = lambda u, v: g.edges[u, v]["weight"]  # noqa: E731
    ctx.prove(len(nodes) >= 2 and all(g.has_edge(u, v) for u, v in zip(nodes, nodes[1:])), f"{tag}:path-is-connected",
              {"nodes": nodes})
    if not all(g.has_edge(u, v) for u, v in zip(nodes, nodes[1:])):
        return
    ctx.prove(g.in_degree(nodes[0]) == 0 or True, f"{tag}:path-starts-somewhere", None)
    total = 0
    for u, v in zip(nodes, nodes[1:]):
        total = total + W(u, v)
    paths = CP.all_paths(g)
    for p in paths:
        w = 0
        for u, v in zip(p, p[1:]):
            w = w + W(u, v)
        ctx.prove(total >= w, f"{tag}:no-heavier-path", {"path": p})
    evs = {int(g.node_list[n].ev_idx) for n in nodes}
    ctx.prove({int(x) for x in g.critical_path_events_set} == evs, f"{tag}:critical-events-are-the-path-events",
              {"reported": sorted(int(x) for x in g.critical_path_events_set), "path": sorted(evs)})
    es = {(int(e.begin), int(e.end)) for e in g.critical_path_edges_set}
    ctx.prove(es == set(zip(nodes, nodes[1:])) and len(g.critical_path_edges_set) == len(nodes) - 1,
              f"{tag}:critical-edges-are-the-path-edges", {"reported": sorted(es)})
    for e in g.critical_path_edges_set:
        ctx.prove(g.edges[e.begin, e.end]["object"] is e, f"{tag}:critical-edge-objects-are-graph-edges", None)
    if makespan is not None:
        ctx.prove(total <= makespan, f"{tag}:weight-within-makespan", None)
    return len(paths)


def run(ctx):
    P = ctx.params
    whatif = P["mode"] == "whatif"
    R = CP.run_analysis(ctx, CP.STRUCTS[ctx.sk["struct"]], P["anno"], P["inst"], P["zero"], P["step"], "all",
                        real_longest_path=not whatif)
    res = R["res"]
    ctx.prove(res is not None and res[1] is True, "analysis-succeeds", None)
    if res is None or res[1] is not True:
        return
    g = res[0]
    if not whatif:
        lo, hi = None, None
        for nd in g.node_list:
            lo = nd.ts if lo is None else smin(lo, nd.ts)
            hi = nd.ts if hi is None else smax(hi, nd.ts)
        n = check_path(ctx, g, "orig", hi - lo)
    else:
        import networkx as _nx
        if ctx.mode == "sym":
            ctx.mods["hta.analyzers.critical_path_analysis"].nx = _nx
        for k, (u, v) in enumerate(sorted(g.edges)):
            ctx.sk.setdefault("vars", {})[f"w{k}"] = ["int", 0, None]
            g.edges[u, v]["weight"] = ctx.val(f"$w{k}")
        # with every weight 0 the "path" degenerates to a single node and critical_path() asserts: outside the claim
        ctx.assume(sor(*[g.edges[u, v]["weight"] > 0 for u, v in g.edges]))
        ok = g.critical_path()
        ctx.prove(ok is True, "whatif:recomputation-succeeds", None)
        n = check_path(ctx, g, "whatif")
    if ctx.mode == "sym" and (n or 0) >= 2:
        ctx.nontrivial(True)
    elif ctx.mode == "sym" and ctx.sk["struct"] == "I":
        ctx.nontrivial(True)


def signature(label, sk, detail):
    return f"{ID}/{label}"
