"""C12 — iteration numbers follow profiler steps; loading trims only the trailing step."""
import itertools

from harness.common import assume_nested_or_disjoint, sand, sor, snot
from symx import tracegen as TG
from symx.engine import site, smax

ID = "C12"
MODULES = ["hta.trace_analysis"]
MUST_NOT_RAISE = True
BUDGET_S = {"quick": 420, "thorough": 1200}
BOUNDS = {
    "quick": "1 rank; 0..2 ProfilerStep annotations (disjoint, any gaps) + every word of 1..2 further items over {host "
             "operator, linked launch/kernel pair, unlinked kernel}, 3 steps + one launch/kernel pair; all ts/dur symbolic Int (events anywhere: before, "
             "inside, between, after the steps); include_last_profiler_step in {False, True}",
    "thorough": "0..3 steps + words of 1..3 items; 2 ranks (same step numbers) for selected words",
}
EXPLANATION = ("Real add_iteration, Trace._filter_irrelevant_gpu_kernels, Trace.load_traces, Trace.get_iterations through the "
               "public loader. Obligations: host event's iteration = number of the step whose half-open span contains its "
               "start, else -1; device activity = iteration of its linked launch call, -1 if unlinked; with >= 2 steps the "
               "kept rows are exactly the host events with ts < last step start (<= last step end when requested) plus the "
               "device activities whose launch call is kept; with < 2 steps nothing is dropped; get_iterations = the "
               "non-negative iterations present. Non-trivial path = admits a dropped and a kept event (>= 2 steps) or an "
               "event inside and one outside a step.")
ASSUMPTIONS = ["WF: host events (steps included) pairwise nested or disjoint, steps pairwise disjoint, unique correlation "
               "ids, device streams positive", "kernel.ts >= launch.ts is NOT assumed", "multi-rank: every rank has the same step numbers",
               "JSON reading stubbed"]
STUBS = ["hta.common.trace_parser.parse_trace_dict", "Trace._validate_trace_files", "plotly", "logging"]
STEP0 = 5


def skeletons(tier):
    out = []
    maxw = 2 if tier == "quick" else 3
    for ns in range(0, 4):
        for n in range(1, maxw + 1):
            for w in itertools.combinations_with_replacement("OLU", n):
                w = "".join(w)
                for inc in (False, True):
                    if ns < 2 and inc:
                        continue
                    if tier == "quick" and ns == 3 and (n == 2 or (w != "L")):
                        continue
                    out.append({"id": f"s{ns}-{w}-inc{int(inc)}", "nsteps": ns, "word": w, "nranks": 1,
                                "params": {"inc": inc}})
    if tier == "thorough":
        for w in ("L", "OL"):
            out.append({"id": f"r2-s2-{w}-inc0", "nsteps": 2, "word": w, "nranks": 2, "params": {"inc": False}})
    return out


def build(sk, r):
    p = f"r{r}"
    ev, steps, hosts, devs = [], [], [], []
    # event 0 is a host operator (Kineto); it is an ordinary host event of the family
    ev.append(TG.op("aten::zeros", f"${p}o_ts", f"${p}o_dur"))
    hosts.append({"id": 0, "ts": f"${p}o_ts", "dur": f"${p}o_dur", "corr": None})
    for s in range(sk["nsteps"]):
        ev.append(TG.step(STEP0 + s, f"${p}s{s}_ts", f"${p}s{s}_dur"))
        d = {"id": len(ev) - 1, "ts": f"${p}s{s}_ts", "dur": f"${p}s{s}_dur", "k": STEP0 + s, "corr": None}
        steps.append(d)
        hosts.append(d)
    corr = 50
    for i, ch in enumerate(sk["word"]):
        if ch == "O":
            ev.append(TG.op("aten::mm", f"${p}h{i}_ts", f"${p}h{i}_dur"))
            hosts.append({"id": len(ev) - 1, "ts": f"${p}h{i}_ts", "dur": f"${p}h{i}_dur", "corr": None})
        elif ch == "L":
            ev.append(TG.runtime("cudaLaunchKernel", f"${p}l{i}_ts", f"${p}l{i}_dur", corr=corr))
            h = {"id": len(ev) - 1, "ts": f"${p}l{i}_ts", "dur": f"${p}l{i}_dur", "corr": corr}
            hosts.append(h)
            ev.append(TG.kernel("gemm_kernel", f"${p}k{i}_ts", f"${p}k{i}_dur", stream=7, corr=corr))
            devs.append({"id": len(ev) - 1, "ts": f"${p}k{i}_ts", "dur": f"${p}k{i}_dur", "launch": h})
            corr += 1
        else:
            ev.append(TG.kernel("gemm_kernel", f"${p}u{i}_ts", f"${p}u{i}_dur", stream=20, corr=corr))
            devs.append({"id": len(ev) - 1, "ts": f"${p}u{i}_ts", "dur": f"${p}u{i}_dur", "launch": None})
            corr += 1
    return ev, steps, hosts, devs


def run(ctx):
    sk = ctx.sk
    inc = ctx.params["inc"]
    events, S, H, D = {}, {}, {}, {}
    for r in range(sk["nranks"]):
        ev, steps, hosts, devs = build(sk, r)
        events[r] = ctx.val(ev)
        S[r], H[r], D[r] = steps, hosts, devs
        for x in hosts + devs:
            x["ts"], x["dur"] = ctx.val(x["ts"]), ctx.val(x["dur"])
        assume_nested_or_disjoint(ctx, [(h["ts"], h["ts"] + h["dur"]) for h in hosts])
        for a in range(len(steps)):
            for b in range(a + 1, len(steps)):
                ctx.assume(sor(steps[a]["ts"] + steps[a]["dur"] <= steps[b]["ts"],
                               steps[b]["ts"] + steps[b]["dur"] <= steps[a]["ts"]))
        for d in devs:
            if d["launch"] is not None:
                pass      # kernel.ts >= launch.ts is not assumed: the quantifier does not ask for causal consistency
    ta = ctx.open(events, include_last_profiler_step=inc)
    trims = sk["nsteps"] >= 2
    nontriv = False
    for r in events:
        df = ta.t.get_trace(r)
        idx = [int(x) for x in ctx.cells(df["index"])]
        ctx.prove(len(set(idx)) == len(idx) and [int(x) for x in ctx.cells(df.index)] == idx, "rows-unique", {"idx": idx})
        it = dict(zip(idx, ctx.cells(df["iteration"])))
        steps = S[r]

        def host_iter(h):
            v = -1
            for s in steps:
                v = site(sand(s["ts"] <= h["ts"], h["ts"] < s["ts"] + s["dur"]), s["k"], v)
            return v

        if trims:
            last_start = steps[0]["ts"]
            last_end = steps[0]["ts"] + steps[0]["dur"]
            for s in steps[1:]:
                last_start, last_end = smax(last_start, s["ts"]), smax(last_end, s["ts"] + s["dur"])
        for h in H[r]:
            keep = True if not trims else ((h["ts"] <= last_end) if inc else (h["ts"] < last_start))
            h["keep"] = keep
            present = h["id"] in it
            ctx.prove(keep if present else snot(keep), "host-event-kept-iff-before-last-step",
                      {"rank": r, "event": h["id"], "present": present})
            if present:
                ctx.prove(it[h["id"]] == host_iter(h), "host-iteration", {"rank": r, "event": h["id"]})
            if ctx.mode == "sym" and trims:
                nontriv = sor(nontriv, snot(keep))
        for d in D[r]:
            keep = d["launch"]["keep"] if d["launch"] is not None else (not trims)
            present = d["id"] in it
            ctx.prove(keep if present else snot(keep), "device-activity-kept-iff-launch-kept",
                      {"rank": r, "event": d["id"], "present": present})
            if present:
                want = host_iter(d["launch"]) if d["launch"] is not None else -1
                ctx.prove(it[d["id"]] == want, "device-iteration", {"rank": r, "event": d["id"]})
        gi = ta.t.get_iterations(r)
        have = sorted({int(v) for v in it.values() if int(v) >= 0}) if all(
            isinstance(v, int) or hasattr(v, "__int__") and not hasattr(v, "z") for v in it.values()) else None
        if have is not None:
            ctx.prove([int(x) for x in gi] == have, "get_iterations", {"rank": r, "got": [int(x) for x in gi]})
    if ctx.mode == "sym":
        if trims:
            ctx.nontrivial(nontriv)
        elif sk["nsteps"] == 1:
            h = H[0][0]
            s = S[0][0]
            ctx.nontrivial(sand(s["ts"] <= h["ts"], h["ts"] < s["ts"] + s["dur"]))
        else:
            ctx.nontrivial(True)


def signature(label, sk, detail):
    return f"{ID}/{label}"
