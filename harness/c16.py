"""C16 — frequent kernel sequences count exactly the kernels launched under each operator."""
import itertools

from harness.common import sand, sor, snot
from symx import tracegen as TG

ID = "C16"
MODULES = ["hta.trace_analysis", "hta.analyzers.cuda_kernel_analysis"]
MUST_NOT_RAISE = True
BUDGET_S = {"quick": 480, "thorough": 1200}
TIE_MODE = "adversarial"
TIE_STABLE_FUNCS = ("_construct_call_stack_graph",)     # the comparator decides that order (C03)
OPNAME = "aten::linear"
KN = {"x": "gemm_kernel_x", "y": "elementwise_kernel_y", "X": "gemm_kernel_x"}      # X: the x kernel on a second stream
STREAM = {"x": 7, "y": 7, "X": 8}
# structures: list of (parent instance or -1, kernels launched directly beneath it)
# an entry (parent, kernels) is an instance of the operator; (parent, kernels, "W") is a *different* operator (a wrapper)
STRUCTS_Q = {"L": [(-1, "x"), (-1, "", "W"), (1, "xy")], "M": [(-1, "", "W"), (0, "x"), (-1, "xy")],
             "A": [(-1, "x")], "B": [(-1, "xy")], "C": [(-1, "x"), (-1, "x")],
             "E": [(-1, "x"), (0, "y")], "F": [(-1, ""), (-1, "x")], "G": [(-1, "xy"), (-1, "x")],
             "N": [(-1, "xX")]}
STRUCTS_T = dict(STRUCTS_Q, D=[(-1, "xy"), (-1, "yx")], H=[(-1, "x"), (0, "y"), (-1, "x")], J=[(-1, "xx"), (-1, "x")], O=[(-1, "xX"), (-1, "xx")],
                 K=[(-1, "x"), (-1, "x"), (-1, "y")])
BOUNDS = {
    "quick": "9 nesting structures (one with the same kernel on two streams, equal name/start/duration reachable) (incl. the operator inside a different wrapper operator and at top level) of 1..2 instances of the operator (top level, nested inside itself, without kernels), "
             "each launching 0..2 kernels of 2 names; all times symbolic Int consistent with the structure (kernel start "
             "order free, equal starts reachable); min_pattern_len in {1,2}, top_k in {1,5}",
    "thorough": "10 structures of up to 3 instances; min_pattern_len in {1,2,3}",
}
EXPLANATION = ("Real TraceAnalysis.get_frequent_cuda_kernel_sequences (CudaKernelAnalysis.get_frequent_cuda_kernel_sequences, "
               "_generate_frequent_pattern_results, CallGraph.get_stack_of_node, CallStackGraph.get_descendants) on loaded "
               "traces. Oracle: considered instances = matching operators at the shallowest depth with >= min_pattern_len "
               "device descendants; each contributes name + kernel names in a start-time order (any order among equal "
               "starts). Obligation: the reported table (pattern, count, GPU and CPU duration sums) equals the table of SOME "
               "admissible assignment of start orders (disjunction decided by z3), rows by descending count. Non-trivial "
               "path = two instances with the same pattern or a nested instance.")
ASSUMPTIONS = ["trace times consistent with the skeleton's nesting structure (launch calls inside their operator instance, "
               "sibling instances in index order); kernel.ts >= launch.ts only for the structures with >= 3 launches or a wrapper operator", "the operator name is not a substring of another "
               "name of the vocabulary", "overlay of the patterns onto the raw trace and the file write are stubbed in the "
               "symbolic run (they are C20's subject)"]
STUBS = ["hta.common.trace_parser.parse_trace_dict", "Trace._validate_trace_files",
         "CudaKernelAnalysis._overlay_frequent_patterns_with_trace", "Trace.write_raw_trace", "is_valid_directory", "plotly",
         "logging"]


def skeletons(tier):
    out = []
    S = STRUCTS_Q if tier == "quick" else STRUCTS_T
    lens = (1, 2) if tier == "quick" else (1, 2, 3)
    for k, st in S.items():
        for ml in lens:
            for tk in ((5,) if (tier == "quick" and ml == 2) else (1, 5)):
                causal = sum(len(it[1]) for it in st) >= 3 or any(len(it) > 2 for it in st)
                out.append({"id": f"{k}-len{ml}-top{tk}", "struct": st, "params": {"minlen": ml, "topk": tk, "causal": causal}})
    # "every operator name occurring in it": names that are not plain identifiers (torch.profiler writes such
    # annotations), matched literally
    for nm, tag in (("enumerate(DataLoader)#_SingleProcessDataLoaderIter.__next__", "paren"), ("aten::add_.Tensor[out]", "bracket"),
                    ("Optimizer.step#SGD.step+fused", "plus")):
        out.append({"id": f"B-len1-top5-name-{tag}", "struct": S["B"], "params": {"minlen": 1, "topk": 5, "causal": True,
                                                                                "opname": nm}})
    return out


def build(sk):
    ev, inst = [], []
    corr = 50
    for i, item in enumerate(sk["struct"]):
        par, ks = item[0], item[1]
        wrapper = len(item) > 2
        ev.append(TG.op("aten::wrapper" if wrapper else sk["params"].get("opname", OPNAME), f"$i{i}_ts", f"$i{i}_dur"))
        I = {"id": len(ev) - 1, "ts": f"$i{i}_ts", "dur": f"$i{i}_dur", "parent": par, "kernels": [], "launches": [],
             "match": not wrapper}
        for j, ch in enumerate(ks):
            ev.append(TG.runtime("cudaLaunchKernel", f"$i{i}l{j}_ts", f"$i{i}l{j}_dur", corr=corr))
            L = {"id": len(ev) - 1, "ts": f"$i{i}l{j}_ts", "dur": f"$i{i}l{j}_dur"}
            ev.append(TG.kernel(KN[ch], f"$i{i}k{j}_ts", f"$i{i}k{j}_dur", stream=STREAM[ch], corr=corr))
            I["kernels"].append({"id": len(ev) - 1, "name": KN[ch], "ts": f"$i{i}k{j}_ts", "dur": f"$i{i}k{j}_dur",
                                 "launch": L})
            I["launches"].append(L)
            corr += 1
        inst.append(I)
    return ev, inst


def run(ctx):
    sk = ctx.sk
    ev, inst = build(sk)
    events = {0: ctx.val(ev)}
    for I in inst:
        I["ts"], I["dur"] = ctx.val(I["ts"]), ctx.val(I["dur"])
        I["end"] = I["ts"] + I["dur"]
        for x in I["launches"] + I["kernels"]:
            x["ts"], x["dur"] = ctx.val(x["ts"]), ctx.val(x["dur"])
            x["end"] = x["ts"] + x["dur"]
    # ---- structure assumptions -------------------------------------------------------------------------
    for i, I in enumerate(inst):
        ctx.assume(I["dur"] > 0)
        inner = list(I["launches"]) + [J for J in inst if J["parent"] == i]
        inner.sort(key=lambda x: x["id"])
        prev = None
        for x in inner:
            ctx.assume(sand(I["ts"] <= x["ts"], x["end"] <= I["end"]))
            # strictly inside: a zero-duration call exactly on the boundary between two touching instances may
            # legitimately be placed beneath either of them (C03), which would make "its" instance ambiguous
            ctx.assume(sand(I["ts"] < x["ts"], x["end"] < I["end"]))
            if prev is not None:
                ctx.assume(prev["end"] <= x["ts"])
            prev = x
        for k in I["kernels"]:
            if ctx.params.get("causal", True):
                # the quantifier does not ask for causal consistency: assumed only where the family would not fit the
                # budget otherwise (structures with three launches or a wrapper), see skeletons()
                ctx.assume(k["ts"] >= k["launch"]["ts"])
    tops = [I for I in inst if I["parent"] == -1]
    for a, b in zip(tops, tops[1:]):
        ctx.assume(a["end"] <= b["ts"])
    ta = ctx.open(events)
    P = ctx.params
    if ctx.mode == "sym":
        CKA = ctx.mods["hta.analyzers.cuda_kernel_analysis"]
        CKA.is_valid_directory = lambda *a, **k: type("R", (), {"success": True, "reason": ""})()
        CKA.CudaKernelAnalysis._overlay_frequent_patterns_with_trace = classmethod(lambda cls, *a, **k: {})
        ta.t.write_raw_trace = lambda f, c: None
        outdir = "/symx-out"
    else:
        import os
        outdir = os.path.join(ctx.outdir, "..", "overlay")
        os.makedirs(outdir, exist_ok=True)
    OP = P.get("opname", OPNAME)
    res = ta.get_frequent_cuda_kernel_sequences(OP, outdir, min_pattern_len=P["minlen"], rank=0, top_k=P["topk"],
                                                visualize=False)

    def all_kernels(i):
        out = list(inst[i]["kernels"])
        for j, J in enumerate(inst):
            if J["parent"] == i:
                out.extend(all_kernels(j))
        return out

    def depth(i):
        return 0 if inst[i]["parent"] == -1 else 1 + depth(inst[i]["parent"])

    matching = [i for i, I in enumerate(inst) if I["match"]]
    shallowest = min(depth(i) for i in matching)
    considered = [i for i in matching if depth(i) == shallowest and len(all_kernels(i)) >= P["minlen"]]
    if not considered:
        ctx.prove(len(res) == 0, "no-considered-instance-empty-result", {"rows": len(res)})
        if ctx.mode == "sym":
            ctx.nontrivial(True)
        return
    has_cols = all(c in list(res.columns) for c in ("pattern", "count", "GPU kernel duration (us)", "CPU op duration (us)"))
    ctx.prove(has_cols, "result-is-a-pattern-table", {"cols": list(res.columns), "considered": len(considered)})
    if not has_cols:
        return
    pats = [str(x) for x in ctx.cells(res["pattern"])]
    cnt = [int(x) for x in ctx.cells(res["count"])]
    gdur = ctx.cells(res["GPU kernel duration (us)"])
    cdur = ctx.cells(res["CPU op duration (us)"])
    ctx.prove(list(res.columns) == ["pattern", "count", "GPU kernel duration (us)", "CPU op duration (us)"], "columns",
              {"cols": list(res.columns)})
    ctx.prove(sum(cnt) == len(considered), "counts-add-up-to-considered-instances", {"counts": cnt, "n": len(considered)})
    ctx.prove(all((cnt[a] > cnt[a + 1]) or (cnt[a] == cnt[a + 1] and pats[a] < pats[a + 1]) for a in range(len(cnt) - 1)),
              "rows-by-descending-count", {"counts": cnt, "patterns": pats})
    # admissible start orders per considered instance
    options = []
    for i in considered:
        ks = all_kernels(i)
        opts = []
        for perm in itertools.permutations(range(len(ks))):
            cond = True
            for a, b in zip(perm, perm[1:]):
                cond = sand(cond, ks[a]["ts"] <= ks[b]["ts"])
            opts.append((cond, "|".join([OP] + [ks[a]["name"] for a in perm])))
        # identical pattern strings collapse
        merged = {}
        for c, p in opts:
            merged[p] = sor(merged[p], c) if p in merged else c
        gsum = 0
        for k in ks:
            gsum = gsum + k["dur"]
        options.append((i, list(merged.items()), gsum, inst[i]["dur"]))
    some = False
    for choice in itertools.product(*[range(len(o[1])) for o in options]):
        cond = True
        table = {}
        for (i, opts, gsum, cd), c in zip(options, choice):
            p, adm = opts[c]
            cond = sand(cond, adm)
            t = table.setdefault(p, [0, 0, 0])
            t[0], t[1], t[2] = t[0] + 1, t[1] + gsum, t[2] + cd
        if sorted(table) != sorted(pats):
            continue
        eq = cond
        for p, (n, g, c) in table.items():
            j = pats.index(p)
            eq = sand(eq, cnt[j] == n, gdur[j] == g, cdur[j] == c)
        some = sor(some, eq)
    ctx.prove(some, "table-equals-an-admissible-assignment", {"patterns": pats, "counts": cnt})
    if ctx.mode == "sym" and (len(inst) >= 2):
        ctx.nontrivial(True)
    elif ctx.mode == "sym" and len(inst) == 1:
        ctx.nontrivial(True)


def signature(label, sk, detail):
    return f"{ID}/{label}"
