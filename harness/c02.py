"""C02 — correlation links pair each launch call with its device activity, mutually."""
import itertools

from harness.common import assume_distinct, assume_nested_or_disjoint, sand, sor, snot
from symx import tracegen as TG
from symx.engine import site

ID = "C02"
MODULES = ["hta.trace_analysis"]
MUST_NOT_RAISE = True
BUDGET_S = {"quick": 300, "thorough": 1200}
BOUNDS = {
    "quick": "event 0 a host operator + every word of 1..3 further events over {runtime call, kernel (stream>0), "
             "Event Sync (stream -1), host operator, metadata entry}; correlation ids symbolic in [-1,2] with "
             "per-side uniqueness; symbolic Int times",
    "thorough": "words of 1..4 further events, ids in [-1,3]",
}
EXPLANATION = ("Real transform_correlation_to_index / CPUOperatorFilter / GPUKernelFilter / get_cpu_gpu_correlation reached "
               "through Trace.load_traces. Correlation ids are symbolic, the solver decides who pairs with whom. "
               "Obligations per loaded row: link = -1 iff no id; link = id of the unique opposite-side event with the same "
               "id, and that event links back; 0 when there is none; never an event of the same side or another id; "
               "get_cpu_gpu_correlation lists exactly the linked stream>0 pairs. Non-trivial path = two linked pairs.")
ASSUMPTIONS = ["WF: ids unique per side, device streams positive, event 0 a host operator without correlation id, "
               "host calls nested-or-disjoint", "JSON reading stubbed"]
STUBS = ["hta.common.trace_parser.parse_trace_dict", "Trace._validate_trace_files", "plotly", "logging"]


def skeletons(tier):
    out = []
    maxn, hi = (3, 2) if tier == "quick" else (4, 3)
    for n in range(1, maxn + 1):
        for w in itertools.product("RKEOM", repeat=n):
            w = "".join(w)
            if not (set(w) & set("RKE")):
                continue
            if tier == "quick" and n == 3 and w.count("M") + w.count("O") > 1:
                continue
            out.append({"id": "O" + w, "word": w, "params": {"hi": hi}})
    # long traces with small correlation ids: 130 (concrete, far away) host operators before the word, so that row ids
    # exceed the range of the narrow integer dtype the correlation column is downcast to
    for w in (["RK", "KR", "RE"] if tier == "quick" else ["RK", "KR", "RE", "RKK", "RKE", "RRK"]):
        out.append({"id": f"O+130+{w}", "word": w, "params": {"hi": hi, "pad": 130}})
    return out


def build(sk):
    hi = sk["params"]["hi"]
    ev = [TG.op("aten::mm", "$e0_ts", "$e0_dur")]
    info = [{"id": 0, "side": "host", "corr": -1, "row": True, "stream": -1, "ts": "$e0_ts", "dur": "$e0_dur"}]
    vars_ = {}
    pad = sk["params"].get("pad", 0)
    for j in range(pad):
        ev.append(TG.op("aten::pad", 2 ** 41 + 10 * j, 5))
        info.append({"id": 1 + j, "side": "host", "corr": -1, "row": True, "stream": -1, "ts": 2 ** 41 + 10 * j, "dur": 5})
    for i, ch in enumerate(sk["word"], start=1 + pad):
        ts, dur, c = f"$e{i}_ts", f"$e{i}_dur", f"$e{i}_c"
        if ch == "O":
            ev.append(TG.op("aten::add", ts, dur))
            info.append({"id": i, "side": "host", "corr": -1, "row": True, "stream": -1, "ts": ts, "dur": dur})
        elif ch == "M":
            ev.append(TG.meta())
            info.append({"id": i, "row": False})
        elif ch == "R":
            ev.append(TG.runtime("cudaLaunchKernel", ts, dur, corr=c))
            vars_[c[1:]] = ["int", -1, hi]
            info.append({"id": i, "side": "host", "corr": c, "row": True, "stream": -1, "ts": ts, "dur": dur})
        elif ch == "K":
            ev.append(TG.kernel("gemm_kernel", ts, dur, stream=7, corr=c))
            vars_[c[1:]] = ["int", -1, hi]
            info.append({"id": i, "side": "dev", "corr": c, "row": True, "stream": 7, "ts": ts, "dur": dur})
        elif ch == "E":
            e = TG.kernel("Event Sync", ts, dur, stream=-1, corr=c, cat="cuda_sync")
            ev.append(e)
            vars_[c[1:]] = ["int", -1, hi]
            info.append({"id": i, "side": "dev", "corr": c, "row": True, "stream": -1, "ts": ts, "dur": dur})
    return ev, info, vars_


def run(ctx):
    from symx import pdcore
    # long-trace skeletons: the width of downcast integer columns is decided by the solver (as in C01's small family)
    pdcore.NARROW["symbolic"] = bool(ctx.sk["params"].get("pad")) and ctx.mode == "sym"
    try:
        return _run(ctx)
    finally:
        pdcore.NARROW["symbolic"] = False


def _run(ctx):
    ev, info, vars_ = build(ctx.sk)
    ctx.sk.setdefault("vars", {}).update(vars_)
    events = ctx.val(ev)
    rows = [dict(x, corr=ctx.val(x["corr"])) for x in info if x["row"]]
    host = [x for x in rows if x["side"] == "host"]
    dev = [x for x in rows if x["side"] == "dev"]
    # WF: an id pairs at most one host call with one device activity
    for side in (host, dev):
        for a in range(len(side)):
            for b in range(a + 1, len(side)):
                ca, cb = side[a]["corr"], side[b]["corr"]
                if isinstance(ca, int) and isinstance(cb, int):
                    continue
                ctx.assume(sor(ca == -1, cb == -1, ca != cb))
    # an Event Sync row without correlation id would be a device-side event with id -1: Kineto always writes one
    assume_nested_or_disjoint(ctx, [(ctx.val(x["ts"]), ctx.val(x["ts"]) + ctx.val(x["dur"])) for x in host])
    ta = ctx.open({0: events})
    df = ta.t.get_trace(0)
    idx = [int(x) for x in ctx.cells(df["index"])]
    labels = [int(x) for x in ctx.cells(df.index)]
    link = ctx.cells(df["index_correlation"])
    ctx.prove(sorted(idx) == [x["id"] for x in rows] and labels == idx, "rows-are-the-complete-events",
              {"idx": idx})
    got = dict(zip(idx, link))
    nlinked = 0
    for x in rows:
        if x["id"] not in got:
            continue
        L = got[x["id"]]
        c = x["corr"]
        opp = dev if x["side"] == "host" else host
        want = site(c == -1, -1, 0) if not isinstance(c, int) else (-1 if c == -1 else 0)
        for y in opp:
            match = sand(c != -1, y["corr"] == c)
            want = site(match, y["id"], want)
        ctx.prove(L == want, "link-value", {"event": x["id"], "side": x["side"]})
        # mutual: whoever I point to points back
        for y in rows:
            if y["id"] in got and y["id"] != 0:
                ctx.prove(sor(L != y["id"], got[y["id"]] == x["id"]), "link-is-mutual", {"a": x["id"], "b": y["id"]})
                same_side = y["side"] == x["side"]
                if same_side:
                    ctx.prove(L != y["id"], "never-own-side", {"a": x["id"], "b": y["id"]})
        if ctx.mode == "sym":
            nlinked = nlinked + site(L > 0, 1, 0)
    # get_cpu_gpu_correlation: exactly the linked stream > 0 pairs
    tr = ctx.mods["hta.common.trace"] if ctx.mode == "sym" else __import__("hta.common.trace", fromlist=["x"])
    cg = tr.get_cpu_gpu_correlation(df)
    g, c_ = [int(v) for v in ctx.cells(cg["gpu_index"])], ctx.cells(cg["cpu_index"])
    for x in dev:
        if x["stream"] > 0 and x["id"] in got:
            L = got[x["id"]]
            n = sum(1 for v in g if v == x["id"])
            ctx.prove(sor(sand(L > 0, n == 1), sand(snot(L > 0), n == 0)), "cpu-gpu-table-membership", {"gpu": x["id"]})
            for gv, cv in zip(g, c_):
                if gv == x["id"]:
                    ctx.prove(cv == L, "cpu-gpu-table-value", {"gpu": x["id"]})
    ctx.prove(all(any(v == x["id"] and x["stream"] > 0 for x in dev) for v in g), "cpu-gpu-table-only-kernels", None)
    if ctx.mode == "sym":
        ctx.nontrivial(nlinked >= 4 if len(rows) >= 5 else (nlinked >= 2 if len(host) >= 2 and dev else True))


def signature(label, sk, detail):
    return f"{ID}/{label}"
