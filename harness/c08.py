"""C08 — critical-path graph is a forward-in-time DAG with typed, non-negative edges."""
import networkx as nx

from harness import cp_common as CP
from harness.common import sand, sor, snot
from symx.engine import smax, smin

ID = "C08"
MODULES = CP.MODULES
MUST_NOT_RAISE = True
TIE_MODE = CP.TIE_MODE
TIE_STABLE_FUNCS = CP.TIE_STABLE_FUNCS
SORT_SKIP_FUNCS = CP.SORT_SKIP_FUNCS
STUBS = CP.STUBS + ["networkx.dag_longest_path (the path computation is C09's subject; here any source->sink path)"]
ASSUMPTIONS = CP.ASSUMPTIONS
BUDGET_S = {"quick": 540, "thorough": 1200}
BOUNDS = {
    "quick": "22 structures (incl. two host threads launching on one stream, and a second thread launching on a stream on which the first waits for an event; 1..2 operators with 0..3 launch/kernel pairs on 1..2 streams, cudaStreamSynchronize + Stream "
             "Sync, cudaDeviceSynchronize + Context Sync, a sync between two launches, cudaEventRecord + "
             "cudaStreamWaitEvent (GPU->GPU) and + cudaEventSynchronize (GPU->CPU)) x windows {ProfilerStep instance 0, "
             "whole trace '', an operator name} x zero-weight launch edges {off,on}; second operator inside or outside the "
             "window; all times symbolic Int consistent with the structure and with causality",
    "thorough": "10 structures (up to 3 launches, cudaDeviceSynchronize/Context Sync, sync between launches, two operators "
                "on different streams), windows incl. an operator name and instance ranges",
}
EXPLANATION = ("Real TraceAnalysis.critical_path_analysis (window clipping, CPGraph._create_event_nodes, "
               "_construct_graph_from_call_stacks with the call_stack builder, _construct_graph_from_kernels with the real "
               "queue-length series, _add_edge_helper, _validate_graph) on loaded traces. Obligations: returns (graph, True); "
               "an event has nodes iff it lies in the analysed window (solver-decided), then exactly one start and one end "
               "node carrying ts and ts+dur; every edge has dest.ts >= src.ts, weight >= 0, weight = dest.ts - src.ts for "
               "operator/kernel spans, launch and kernel-kernel delays (0 for blocking calls / zero-weight launch edges) and "
               "0 for dependency and sync edges; the graph is acyclic; launch edge = start(launch call) -> start(its kernel); "
               "kernel-kernel edge = end(kernel) -> start(next kernel of the stream); sync edge = end(kernel) -> end(waiting "
               "host call) or start(kernel). Non-trivial path = graph with a launch-delay or kernel-kernel edge and >= 6 nodes.")


def skeletons(tier):
    out = []

    def add(n, anno, inst, z, step, pmode):
        out.append({"id": f"{n}-{anno or 'all'}-{inst}-z{int(z)}-{pmode}", "struct": n, "vars": CP.pinned_vars(n),
                    "params": {"anno": anno, "inst": inst, "zero": z, "step": step, "pmode": pmode}})
    if tier == "quick":
        for n in CP.STRUCTS:
            add(n, "", None, False, False, "all")
            if n in ("W2", "L2"):       # two host threads: whole-trace window only (budget)
                continue
            if n != "N":
                add(n, "ProfilerStep", 0, False, True, "all")
            add(n, "", None, True, False, "all")
        for n in ("D", "G"):
            add(n, "ProfilerStep", 0, False, True, "free")     # second operator inside or outside the window
        add("B", "aten::mm", 0, False, False, "all")
        return out
    for n in CP.STRUCTS:
        for z in (False, True):
            add(n, "", None, z, False, "all")
            add(n, "ProfilerStep", 0, z, True, "all")
        add(n, "aten::mm", 0, False, False, "all")
        add(n, "ProfilerStep", (0, 0), False, True, "all")
    for n in ("D", "G"):
        add(n, "ProfilerStep", 0, False, True, "free")
    return out


def window(ctx, R, anno, m):
    """analysed window in the shifted time base (lo, hi) or (None, None) for the whole trace"""
    if anno == "":
        return None, None
    if anno == "ProfilerStep":
        P = R["P"]
        return P["ts"] - m, P["end"] - m
    O = R["ops"][0]
    return O["ts"] - m, O["end"] - m


def run(ctx):
    P = ctx.params
    inst = tuple(P["inst"]) if isinstance(P["inst"], list) else P["inst"]
    R = CP.run_analysis(ctx, CP.STRUCTS[ctx.sk["struct"]], P["anno"], inst, P["zero"], P["step"], P["pmode"],
                        real_longest_path=False)
    m = R["m"]
    res = R["res"]
    ctx.prove(res is not None and len(res) == 2 and res[1] is True, "analysis-succeeds", {"result": repr(res)[:80]})
    if res is None or res[1] is not True:
        return
    g = res[0]
    check_graph(ctx, g, R, P, m)


def check_graph(ctx, g, R, P, m):
    if ctx.mode == "sym":
        CPA = ctx.mods["hta.analyzers.critical_path_analysis"]
    else:
        import hta.analyzers.critical_path_analysis as CPA
    T = CPA.CPEdgeType
    H, K, Y = R["H"], R["K"], R["Y"]
    byid = {x["id"]: x for x in H + K + Y}
    lo, hi = window(ctx, R, P["anno"], m)
    want = CP.analysed([dict(h, ts=h["ts"] - m) for h in H],
                       [dict(k, launch=dict(k["launch"], ts=k["launch"]["ts"] - m)) for k in K],
                       [dict(y, call=dict(y["call"], ts=y["call"]["ts"] - m)) for y in Y], lo, hi)
    smap, emap = g.event_to_start_node_map, g.event_to_end_node_map
    ctx.prove(set(smap) == set(emap) and len(g.node_list) == 2 * len(smap), "one-start-and-one-end-node-per-event",
              {"starts": sorted(smap), "ends": sorted(emap), "nodes": len(g.node_list)})
    for eid, cond in want.items():
        present = eid in smap
        ctx.prove(cond if present else snot(cond), "event-analysed-iff-in-window", {"event": eid, "present": present})
    for eid in smap:
        ctx.prove(eid in want, "only-graph-events-have-nodes", {"event": eid})
        if eid not in want:
            continue
        x = byid[eid]
        s, e = g.node_list[int(smap[eid])], g.node_list[int(emap[eid])]
        ctx.prove(sand(s.ts == x["ts"] - m, e.ts == x["end"] - m, bool(s.is_start), not bool(e.is_start),
                       int(s.ev_idx) == eid, int(e.ev_idx) == eid), "nodes-carry-start-and-end-time", {"event": eid})
    edges = CP.edge_objects(g)
    kinds = set()
    for e in edges:
        src, dst = g.node_list[e.begin], g.node_list[e.end]
        d = {"edge": (int(src.ev_idx), bool(src.is_start), int(dst.ev_idx), bool(dst.is_start)), "type": e.type.name}
        kinds.add(e.type.name)
        ctx.prove(dst.ts >= src.ts, "edge-points-forward-in-time", d)
        ctx.prove(e.weight >= 0, "edge-weight-non-negative", d)
        ctx.prove(g.edges[e.begin, e.end]["weight"] == e.weight, "graph-weight-equals-edge-weight", d)
        diff = dst.ts - src.ts
        if e.type in (T.DEPENDENCY, T.SYNC_DEPENDENCY):
            ctx.prove(e.weight == 0, "dependency-and-sync-edges-weigh-zero", d)
        elif e.type == T.KERNEL_KERNEL_DELAY:
            ctx.prove(e.weight == diff, "delay-edge-weighs-time-difference", d)
        elif e.type == T.KERNEL_LAUNCH_DELAY:
            ctx.prove(sor(e.weight == diff, sand(P["zero"], e.weight == 0)), "launch-edge-weighs-time-difference", d)
        else:
            blocking = bool(src.is_blocking) or bool(dst.is_blocking)
            ctx.prove(sor(e.weight == diff, sand(blocking, e.weight == 0)), "span-edge-weighs-time-difference", d)
        # ---- type discipline -----------------------------------------------------------------------------
        a, b = byid.get(int(src.ev_idx)), byid.get(int(dst.ev_idx))
        if a is None or b is None:
            ctx.prove(False, "edge-joins-known-events", d)
            continue
        if e.type == T.KERNEL_LAUNCH_DELAY:
            ok = (a["kind"] == "host" and b["kind"] == "kernel" and b["launch"]["id"] == a["id"] and bool(src.is_start)
                  and bool(dst.is_start))
            ctx.prove(ok, "launch-edge-joins-launch-call-and-its-kernel", d)
        elif e.type == T.KERNEL_KERNEL_DELAY:
            ok = (a["kind"] == "kernel" and b["kind"] == "kernel" and a["stream"] == b["stream"] and not bool(src.is_start)
                  and bool(dst.is_start) and a["id"] != b["id"])
            ctx.prove(ok, "kernel-kernel-edge-joins-kernels-of-one-stream", d)
            if ok:
                # consecutive: no other analysed kernel of the stream starts between them
                for k in K:
                    if k["stream"] == a["stream"] and k["id"] not in (a["id"], b["id"]) and k["id"] in smap:
                        ctx.prove(snot(sand(a["ts"] <= k["ts"], k["ts"] < b["ts"], a["ts"] < k["ts"])),
                                  "kernel-kernel-edge-joins-consecutive-kernels", dict(d, between=k["id"]))
        elif e.type == T.SYNC_DEPENDENCY:
            ok = a["kind"] == "kernel" and not bool(src.is_start) and (
                (b["kind"] == "host" and not bool(dst.is_start) and "sync" in b) or
                (b["kind"] == "kernel" and bool(dst.is_start)))
            ctx.prove(ok, "sync-edge-joins-kernel-end-and-waiting-call", d)
            if ok and b["kind"] == "host":
                waits = b["syncev"]["waits"]
                ctx.prove(any(k["id"] == a["id"] for k in waits), "sync-edge-from-a-kernel-the-call-waits-for", d)
            if ok and b["kind"] == "kernel":
                # GPU->GPU: b was launched after a cudaStreamWaitEvent on its stream that waits for a
                pairs = []
                for h in H:
                    if "waitevent" in h:
                        for k in h["waitevent"]["src"]:
                            pairs.append((k["id"], h["waitevent"]["stream"]))
                ctx.prove(any(a["id"] == kid and b["stream"] == st for kid, st in pairs),
                          "gpu-gpu-sync-edge-matches-a-stream-wait-event", d)
    ctx.prove(nx.is_directed_acyclic_graph(g), "graph-is-acyclic", None)
    if ctx.mode == "sym" and len(g.node_list) >= 6 and kinds & {"KERNEL_LAUNCH_DELAY", "KERNEL_KERNEL_DELAY"}:
        ctx.nontrivial(True)
    elif ctx.mode == "sym" and len(R["K"]) == 0:
        ctx.nontrivial(True)


def signature(label, sk, detail):
    return f"{ID}/{label}"
