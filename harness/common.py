"""Shared pieces of the harnesses: vocabulary, skeleton helpers, comparison helpers."""
from itertools import product

from symx import tracegen as TG
from symx.engine import SVal, provenance, sand, sor, snot, simplies  # noqa: F401

# kernel vocabulary: (name, category, class by hta.utils.get_kernel_type)
K_COMP = ("gemm_kernel", "kernel", "COMPUTATION")
K_COMP2 = ("void at::native::vectorized_elementwise_kernel<4>", "kernel", "COMPUTATION")
K_COMM = ("ncclKernel_AllReduce_RING_LL_Sum_float", "kernel", "COMMUNICATION")
K_COMM2 = ("ncclKernel_AllGather_RING_LL_Sum_int8_t", "kernel", "COMMUNICATION")
K_MEMCPY = ("Memcpy DtoD (Device -> Device)", "gpu_memcpy", "MEMORY")
K_MEMCPY2 = ("Memcpy HtoD (Pageable -> Device)", "gpu_memcpy", "MEMORY")
K_MEMSET = ("Memset (Device)", "gpu_memset", "MEMORY")
K_OTHER = ("Stream Sync", "cuda_sync", "OTHER")        # a sync event on a real stream: neither of the three classes
KCLASS = {"Y": K_OTHER, "C": K_COMP, "c": K_COMP2, "N": K_COMM, "n": K_COMM2, "M": K_MEMCPY, "m": K_MEMCPY2, "S": K_MEMSET}
LAUNCH_FOR = {"kernel": "cudaLaunchKernel", "gpu_memcpy": "cudaMemcpyAsync", "gpu_memset": "cudaMemsetAsync"}


def close(a, b, tol):
    """|a-b| <= tol for concrete or symbolic numbers"""
    return sand(a - b <= tol, b - a <= tol)


def multisets(symbols, n):
    """all non-decreasing words of length n over symbols (skeleton enumeration up to permutation)."""
    out = []

    def rec(prefix, start):
        if len(prefix) == n:
            out.append("".join(prefix))
            return
        for i in range(start, len(symbols)):
            rec(prefix + [symbols[i]], i)
    rec([], 0)
    return out


def words(symbols, n):
    return ["".join(w) for w in product(symbols, repeat=n)]


def assume_nested_or_disjoint(ctx, spans):
    """well-formedness of one host thread: spans [(ts, end)] pairwise nested or disjoint (touching allowed)."""
    for a in range(len(spans)):
        for b in range(a + 1, len(spans)):
            (s1, e1), (s2, e2) = spans[a], spans[b]
            ctx.assume(sor(e1 <= s2, e2 <= s1, sand(s1 <= s2, e2 <= e1), sand(s2 <= s1, e1 <= e2)))


def assume_distinct(ctx, xs):
    for a in range(len(xs)):
        for b in range(a + 1, len(xs)):
            ctx.assume(xs[a] != xs[b])


PRECALLS = {
    "temporal": lambda ta: ta.get_temporal_breakdown(visualize=False),
    "kernels": lambda ta: ta.get_gpu_kernel_breakdown(visualize=False, num_kernels=2, include_memory_kernels=True),
    "idle": lambda ta: ta.get_idle_time_breakdown(ranks=[0], visualize=False, consecutive_kernel_delay=5),
    "overlap": lambda ta: ta.get_comm_comp_overlap(visualize=False),
    "queue": lambda ta: ta.get_queue_length_time_series([0]),
    "launch": lambda ta: ta.get_cuda_kernel_launch_stats([0], visualize=False),
    "membw": lambda ta: ta.get_memory_bw_time_series([0]),
}


def precalls(ctx, ta):
    """other analyses run on the same TraceAnalysis object before the call under test (skeleton parameter `pre`): the
    obligations of the property are unchanged, so any state an analysis leaves behind in the shared frames that changes a
    later answer is a violation.  An exception inside a pre-call (e.g. an analysis that needs a communication kernel) is
    not this property's subject: it is swallowed; CrossHair-style steering exceptions are BaseException and pass."""
    for name in ctx.params.get("pre") or []:
        try:
            PRECALLS[name](ta)
        except Exception as ex:       # noqa: BLE001
            if type(ex).__name__ in ("Unsupported", "HarnessError"):
                raise
