"""C03 — call stack: parent is the innermost enclosing event on the thread (both builders)."""
import itertools

from harness.common import assume_nested_or_disjoint, sand, sor, snot

ID = "C03"
MODULES = ["hta.common.trace_call_stack", "hta.common.call_stack"]
MUST_NOT_RAISE = True
BUDGET_S = {"quick": 420, "thorough": 1200}
TIE_MODE = "adversarial"
BOUNDS = {
    "quick": "comparator lemmas: endpoints of any 3 events (ids in every order) with unbounded symbolic Int ts >= 0, "
             "dur >= 0, pairwise nested or disjoint; end-to-end: both builders on 1..3 events of one thread (any id "
             "order), symbolic times incl. dur = 0, adversarial pre-sort ties",
    "thorough": "lemmas as quick; end-to-end on 1..4 events",
}
EXPLANATION = ("(1) Lemmas on the real comparators trace_call_stack._less_than (with the tie context computed by the real "
               "module) and call_stack.compare_events over all endpoints of 3 symbolic events: asymmetry, transitivity and transitivity "
               "of equivalence (a strict weak order, so sorted() is well defined) and the bracket lemmas (A contains B => open A < open B < close B "
               "< close A; A before B, touching allowed => close A < open B; the two endpoints of a zero-duration event are "
               "adjacent). The step from these lemmas to 'any number of events' is a paper argument (total order + bracket "
               "lemmas => well-parenthesised sequence => push/pop yields the innermost enclosing parent) and is NOT "
               "machine-checked. (2) Both real builders (trace_call_stack.CallStackGraph, call_stack.CallStackGraph) end to "
               "end on small families: every event once, parent of a positive event = innermost enclosing positive event "
               "(identical spans: lower id outside; touching: siblings), depth = number of ancestors, zero-duration event "
               "beneath an event whose closed span contains its instant whenever one exists. Non-trivial path = nesting "
               "depth >= 2 or a zero-duration event at a shared instant.")
ASSUMPTIONS = ["events of the thread are pairwise nested or disjoint (touching allowed)", "ts >= 0, dur >= 0 integers",
               "lifting from 3 events to n events by a paper argument (see explanation)"]
STUBS = ["logging"]


def skeletons(tier):
    out = []
    for ids in itertools.permutations((1, 2, 3)):
        out.append({"id": "lemma-new-" + "".join(map(str, ids)), "fam": "lemma", "builder": "new", "ids": list(ids),
                    "params": {}})
        out.append({"id": "lemma-old-" + "".join(map(str, ids)), "fam": "lemma", "builder": "old", "ids": list(ids),
                    "params": {}})
    maxn = 3 if tier == "quick" else 4
    for n in range(1, maxn + 1):
        perms = list(itertools.permutations(range(1, n + 1)))
        if n == 4:
            perms = perms[::5]
        for ids in perms:
            for b in ("new", "old"):
                out.append({"id": f"e2e-{b}-" + "".join(map(str, ids)), "fam": "e2e", "builder": b, "ids": list(ids),
                            "params": {}})
    return out


def mods(ctx):
    if ctx.mode == "sym":
        return ctx.mods["hta.common.trace_call_stack"], ctx.mods["hta.common.call_stack"]
    import hta.common.call_stack as old
    import hta.common.trace_call_stack as new
    return new, old


def events_of(ctx, ids):
    ev = []
    for k, i in enumerate(ids):
        ts, dur = ctx.val(f"$e{k}_ts"), ctx.val(f"$e{k}_dur")
        ev.append({"id": i, "ts": ts, "dur": dur, "end": ts + dur})
    assume_nested_or_disjoint(ctx, [(e["ts"], e["end"]) for e in ev])
    return ev


def contains(a, b):
    """a is an ancestor candidate of b: a's span contains b's; identical spans nest in id order."""
    ident = sand(a["ts"] == b["ts"], a["end"] == b["end"])
    return sand(a["ts"] <= b["ts"], b["end"] <= a["end"], sor(snot(ident), a["id"] < b["id"]))


# ---------------------------------------------------------------------------
# comparator lemmas
# ---------------------------------------------------------------------------

def run_lemma(ctx):
    new, old = mods(ctx)
    ev = events_of(ctx, ctx.sk["ids"])
    if ctx.sk["builder"] == "new":
        if ctx.mode == "sym":
            from symx import symnp as np
        else:
            import numpy as np
        pts = []
        for e in ev:
            pts.append((e, "open", [e["id"], e["dur"], new.OPEN_END, e["ts"]]))
            pts.append((e, "close", [e["id"], e["dur"], new.CLOSE_END, e["end"]]))
        arr = np.array([p[2] for p in pts])
        rows = [arr[i] for i in range(len(pts))]
        if hasattr(new, "_closing_times"):
            ctxv = new._closing_times(arr)
            lt = lambda i, j: bool(new._less_than(rows[i], rows[j], ctxv))  # noqa: E731
        else:
            lt = lambda i, j: bool(new._less_than(rows[i], rows[j]))  # noqa: E731
    else:
        pts = []
        for e in ev:
            pts.append((e, "open", old.Event(e["id"], e["ts"], e["dur"], old.EVENT_START)))
            pts.append((e, "close", old.Event(e["id"], e["end"], e["dur"], old.EVENT_END)))
        if hasattr(old, "_closing_times"):
            ctxv = old._closing_times([p[2] for p in pts])
            lt = lambda i, j: bool(old.compare_events(pts[i][2], pts[j][2], ctxv) < 0)  # noqa: E731
        else:
            lt = lambda i, j: bool(old.compare_events(pts[i][2], pts[j][2]) < 0)  # noqa: E731
    n = len(pts)
    L = {(i, j): lt(i, j) for i in range(n) for j in range(n) if i != j}
    name = lambda i: f"{pts[i][1]}({pts[i][0]['id']})"  # noqa: E731
    for i in range(n):
        for j in range(i + 1, n):
            ctx.prove(not (L[i, j] and L[j, i]), "asymmetry", {"x": name(i), "y": name(j)})
    inc = lambda i, j: not L[i, j] and not L[j, i]  # noqa: E731   (equivalent under the order)
    for i, j, k in itertools.permutations(range(n), 3):
        if L[i, j] and L[j, k]:
            ctx.prove(L[i, k], "transitivity", {"x": name(i), "y": name(j), "z": name(k)})
        if inc(i, j) and inc(j, k):
            ctx.prove(inc(i, k), "equivalence-is-transitive", {"x": name(i), "y": name(j), "z": name(k)})
    # bracket lemmas (conditions symbolic, comparator outcomes concrete on this path)
    idx = {(p[0]["id"], p[1]): i for i, p in enumerate(pts)}
    for a in ev:
        oa, ca = idx[a["id"], "open"], idx[a["id"], "close"]
        ctx.prove(L[oa, ca], "open-before-own-close", {"event": a["id"]})
        for b in ev:
            if a is b:
                continue
            ob, cb = idx[b["id"], "open"], idx[b["id"], "close"]
            inside = sand(contains(a, b), b["dur"] > 0)
            good = L[oa, ob] and L[ob, cb] and not L[ca, cb]
            ctx.prove(sor(snot(inside), good), "bracket:containment", {"outer": a["id"], "inner": b["id"]})
            before = sand(a["end"] <= b["ts"], a["dur"] > 0, b["dur"] > 0)
            ctx.prove(sor(snot(before), L[ca, ob]), "bracket:sequence", {"first": a["id"], "second": b["id"]})
        # a zero-duration event's endpoints are adjacent
        between = [k for k in range(n) if k not in (oa, ca) and L[oa, k] and L[k, ca] and pts[k][0]["dur"] is not None]
        for k in between:
            other = pts[k][0]
            ctx.prove(sor(a["dur"] > 0, other["dur"] == 0), "zero-duration-endpoints-adjacent",
                      {"event": a["id"], "between": name(k)})
    if ctx.mode == "sym":
        a, b, c = ev
        ctx.nontrivial(sand(a["dur"] > 0, b["dur"] == 0, a["end"] == b["ts"], c["ts"] == b["ts"], c["dur"] > 0))


# ---------------------------------------------------------------------------
# end to end
# ---------------------------------------------------------------------------

def run_e2e(ctx):
    new, old = mods(ctx)
    if ctx.mode == "sym":
        from symx import sympd as pd
        T = ctx.mods["hta.common.trace_symbol_table"].TraceSymbolTable
    else:
        import pandas as pd
        from hta.common.trace_symbol_table import TraceSymbolTable as T
    ev = events_of(ctx, ctx.sk["ids"])
    df = pd.DataFrame({"index": [e["id"] for e in ev], "ts": [e["ts"] for e in ev], "dur": [e["dur"] for e in ev],
                       "stream": [-1] * len(ev), "index_correlation": [-1] * len(ev), "pid": [1] * len(ev),
                       "tid": [9] * len(ev)}, index=[e["id"] for e in ev])
    if ctx.sk["builder"] == "new":
        corr = pd.DataFrame({"cpu_index": pd.Series([], dtype="int64"), "gpu_index": pd.Series([], dtype="int64")})
        full = df.copy()
        full["end"] = full["ts"] + full["dur"]
        g = new.CallStackGraph(df, new.CallStackIdentity(0, 1, 9), corr, full, T(), save_call_stack_to_df=False)
        nodes = g.get_nodes()
        root = g.root_index
    else:
        g = old.CallStackGraph(df, old.CallStackIdentity(0, 1, 9))
        nodes = g.get_nodes()
        root = old.NULL_NODE_INDEX
    ids = [e["id"] for e in ev]
    ctx.prove(sorted(k for k in nodes if k >= 0) == sorted(ids), "every-event-exactly-once",
              {"nodes": sorted(k for k in nodes if k >= 0)})
    byid = {e["id"]: e for e in ev}
    kids = {}
    for k, nd in nodes.items():
        for c in nd.children:
            kids.setdefault(c, []).append(k)
    nest2 = False
    for e in ev:
        if e["id"] not in nodes:
            continue
        p = int(nodes[e["id"]].parent)
        d = {"event": e["id"], "parent": p}
        ctx.prove(kids.get(e["id"], []) == [p], "child-lists-agree-with-parents", d)
        pos = [x for x in ev if x is not e]
        if p != root and p not in byid:
            ctx.prove(False, "parent-is-an-event-or-root", d)
            continue
        # ---- positive duration: innermost enclosing positive event -----------------------------
        cands = [(x, sand(contains(x, e), x["dur"] > 0)) for x in pos]
        if p == root:
            ctx.prove(sor(e["dur"] == 0, snot(sor(*[c for _, c in cands])) if cands else True),
                      "positive-event-has-innermost-enclosing-parent", d)
        else:
            P = byid[p]
            ok = sand(contains(P, e), P["dur"] > 0)
            for x, c in cands:
                if x is not P:
                    ok = sand(ok, sor(snot(c), contains(x, P)))
            ctx.prove(sor(e["dur"] == 0, ok), "positive-event-has-innermost-enclosing-parent", d)
        # ---- zero duration: beneath an event whose closed span contains the instant ------------------
        zc = [sand(x["ts"] <= e["ts"], e["ts"] <= x["end"], x["dur"] > 0) for x in pos]
        if p == root:
            ctx.prove(sor(e["dur"] > 0, snot(sor(*zc)) if zc else True), "zero-duration-event-beneath-containing-event", d)
        else:
            P = byid[p]
            ctx.prove(sor(e["dur"] > 0, sand(P["ts"] <= e["ts"], e["ts"] <= P["end"])),
                      "zero-duration-event-beneath-containing-event", d)
        # ---- depth = number of ancestors -------------------------------------------------------------------
        anc, q, guard = 0, p, 0
        while q != root and q in nodes and guard < 10:
            anc, q, guard = anc + 1, int(nodes[q].parent), guard + 1
        ctx.prove(int(nodes[e["id"]].depth) == anc, "depth-is-number-of-ancestors", dict(d, depth=int(nodes[e["id"]].depth)))
        if anc >= 2:
            nest2 = True
    if ctx.mode == "sym" and (nest2 or len(ev) < 3):
        ctx.nontrivial(True)


def run(ctx):
    if ctx.sk["fam"] == "lemma":
        run_lemma(ctx)
    else:
        run_e2e(ctx)


def signature(label, sk, detail):
    return f"{ID}/{sk['builder']}/{label}"
