"""C04 — temporal breakdown is an exact partition of the GPU activity span."""
from harness.common import precalls, KCLASS, close, multisets, provenance, sand
from oracles.intervals import union_len
from symx import tracegen as TG
from symx.engine import smax, smin

ID = "C04"
MODULES = ["hta.trace_analysis"]
MUST_NOT_RAISE = True
BUDGET_S = {"quick": 420, "thorough": 1200}
BOUNDS = {
    "quick": "1 rank x 1..3 device activities (all class multisets over computation/communication/memory/other (a sync event on a stream)), plus "
             "2 ranks x 1..2 activities; ts,dur symbolic Int in [0,2^40], dur >= 0 (zero length allowed)",
    "thorough": "1 rank x 1..4 activities (all class multisets), 2 ranks x <=2 activities each (all pairs)",
}
EXPLANATION = ("Real TraceAnalysis.get_temporal_breakdown (idle_time_per_rank, _get_idle_time_for_kernels, "
               "merge_kernel_intervals, get_kernel_type) after the real load pipeline. Obligations per rank: "
               "kernel_time = max end - min start; idle = kernel_time - |U all|; compute = |U computation|; "
               "non_compute = remainder; all >= 0 and summing to kernel_time; percentages = round(100*part/kernel_time,2); "
               "no exception (incl. hta's own asserts). Non-trivial path = admits idle>0, compute>0 and non_compute>0 "
               "(or, for skeletons where that is impossible, kernel_time>0).")
ASSUMPTIONS = ["each rank has >= 1 device activity", "integer timestamps in [0,2^40]",
               "percentage clauses only when kernel_time > 0; round(x,2) modelled as within 0.005",
               "JSON reading stubbed"]
STUBS = ["hta.common.trace_parser.parse_trace_dict", "Trace._validate_trace_files", "plotly", "logging"]


def skeletons(tier):
    out = []
    maxn = 3 if tier == "quick" else 4
    for n in range(1, maxn + 1):
        for w in multisets("CNMY", n):
            if tier == "quick" and n == 3 and w.count("Y") > 1:
                continue
            out.append({"id": f"r1-{w}", "ranks": {"0": w}})
    for w in ["C", "CN", "NC", "CCN"]:
        if len(w) == 2:
            # other analyses run first on the same object: their leftovers in the shared frames must not change the answer
            for pre in ("kernels", "idle", "overlap"):
                out.append({"id": f"r1-{w}-after-{pre}", "ranks": {"0": w}, "params": {"pre": [pre]}})
        out.append({"id": f"r1-{w}-stream0", "ranks": {"0": w}, "params": {"stream0": True}})
    pairs = [("C", "N"), ("CN", "M"), ("CC", "CM")] if tier == "quick" else [
        (a, b) for a in ["C", "N", "CN", "CC", "CM"] for b in ["C", "M", "CN", "NM"]]
    for a, b in pairs:
        out.append({"id": f"r2-{a}-{b}", "ranks": {"0": a, "1": b}})
    return out


def build(sk):
    ranks, kinfo = {}, {}
    for r, w in sk["ranks"].items():
        ev = [TG.op("aten::mm", f"$r{r}_op_ts", f"$r{r}_op_dur")]
        ks = []
        for i, ch in enumerate(w):
            name, cat, cls = KCLASS[ch]
            ts, dur = f"$r{r}_k{i}_ts", f"$r{r}_k{i}_dur"
            ev.append(TG.kernel(name, ts, dur, stream=(0 if (sk.get('params', {}).get('stream0') and i == 0) else 7 + 13 * (i % 2)), corr=100 + i, cat=cat))
            ks.append((cls, ts, dur))
        ranks[int(r)] = ev
        kinfo[int(r)] = ks
    return ranks, kinfo


def _fold(f, xs):
    acc = xs[0]
    for x in xs[1:]:
        acc = f(acc, x)
    return acc


def run(ctx):
    ranks, kinfo = build(ctx.sk)
    events = {r: ctx.val(ev) for r, ev in ranks.items()}
    ta = ctx.open(events)
    precalls(ctx, ta)
    res = ta.get_temporal_breakdown(visualize=False)
    rk = [int(x) for x in ctx.cells(res["rank"])]
    ctx.prove(sorted(rk) == sorted(kinfo), "one-row-per-rank", {"ranks": rk})
    col = {c: ctx.cells(res[c]) for c in ["idle_time(us)", "compute_time(us)", "non_compute_time(us)",
                                          "kernel_time(us)", "idle_time_pctg", "compute_time_pctg",
                                          "non_compute_time_pctg"]}
    for j, r in enumerate(rk):
        ks = kinfo[r]
        allv = [(ctx.val(ts), ctx.val(ts) + ctx.val(d)) for _, ts, d in ks]
        comp = [(ctx.val(ts), ctx.val(ts) + ctx.val(d)) for c, ts, d in ks if c == "COMPUTATION"]
        span = _fold(smax, [e for _, e in allv]) - _fold(smin, [s for s, _ in allv])
        busy = union_len(allv)
        o_idle, o_comp = span - busy, union_len(comp)
        o_non = span - o_comp - o_idle
        idle, compute, non, kt = (col[c][j] for c in ["idle_time(us)", "compute_time(us)", "non_compute_time(us)",
                                                       "kernel_time(us)"])
        d = {"rank": r}
        ctx.prove(kt == span, "kernel-time", d)
        ctx.prove(idle == o_idle, "idle-time", d)
        ctx.prove(compute == o_comp, "compute-time", d)
        ctx.prove(non == o_non, "non-compute-time", d)
        ctx.prove(sand(idle >= 0, compute >= 0, non >= 0, idle + compute + non == kt), "partition", d)
        parts = {"idle_time_pctg": (idle, o_idle), "compute_time_pctg": (compute, o_comp),
                 "non_compute_time_pctg": (non, o_non)}
        for c, (got, want) in parts.items():
            p = col[c][j]
            if ctx.mode == "sym":
                if isinstance(p, float) and p != p:
                    continue  # kernel_time == 0 on this path: clause not assumed
                ctx.prove_ratio(p, want, span, "pctg:" + c, d)
            else:
                if span > 0:
                    w = 100.0 * want / span
                    ctx.prove(abs(p - w) <= 0.005 + 1e-9 * abs(w), "pctg:" + c, {"rank": r, "got": p, "want": w})
        if ctx.mode == "sym":
            ctx.nontrivial(sand(o_idle > 0, o_comp > 0, o_non > 0) if len(ks) >= 3 and comp and len(comp) < len(ks)
                           else span > 0)


def signature(label, sk, detail):
    return f"{ID}/{label}"
