"""C20 — trace files written by the tool preserve every source event (overlay and counters clauses)."""
import gzip
import json
import os

from harness import cp_common as CP
from harness.common import sand, sor, snot
from symx.engine import smin

ID = "C20"
MODULES = CP.MODULES
MUST_NOT_RAISE = True
TIE_MODE = CP.TIE_MODE
TIE_STABLE_FUNCS = CP.TIE_STABLE_FUNCS
SORT_SKIP_FUNCS = CP.SORT_SKIP_FUNCS
STUBS = CP.STUBS + ["networkx.dag_longest_path: real for structures I, A, E; replaced by 'some source->sink path' for the "
                    "larger ones (any path may be the critical one for this property)"]
ASSUMPTIONS = CP.ASSUMPTIONS + ["byte-level .json/.json.gz encoding, update_trace_rank and create_rank_to_trace_dict are "
                                "I/O + regular expressions over file lines: outside the symbolic claim (DESIGN §6 C20)"]
BUDGET_S = {"quick": 420, "thorough": 1200}
BOUNDS = {
    "quick": "overlay of the critical path on 4 structures (0..2 launch/kernel pairs, stream synchronisation) x option "
             "combinations {all events + critical edges, all events + all edges, critical events only}, zero-weight launch "
             "edges added and shown/hidden; raw events with symbolic Int ts/dur (unshifted); the counters file is covered in "
             "C14 (same obligations)",
    "thorough": "8 structures x all option combinations",
}
EXPLANATION = ("Real CriticalPathAnalysis.overlay_critical_path_analysis (through TraceAnalysis.overlay_critical_path_analysis) on "
               "graphs built by the real analysis; Trace.get_raw_trace_for_one_rank returns the symbolic event list and "
               "write_raw_trace is captured (natively the written file is read back). Obligations: with all events kept the "
               "first len(source) entries are the source entries, same order, field by field, except args.critical = 1 on "
               "exactly the critical path's events; critical-only mode keeps exactly non-complete, annotation and critical "
               "events in order; the appended entries are one start/finish flow pair per drawn edge (critical edges, or all "
               "edges minus hidden zero-weight launch edges) with the pid/tid of the two events the edge joins, the stated "
               "timestamp rule, the edge type as category and weight/critical args. Non-trivial path = at least 3 drawn edges.")


def _read_json(path):
    raw = open(path, "rb").read()
    return json.loads(gzip.decompress(raw) if raw[:2] == b"\x1f\x8b" else raw)


def skeletons(tier):
    out = []
    names = ("I", "A", "B", "E") if tier == "quick" else ("I", "A", "B", "C", "D", "E", "F", "J")
    for n in names:
        for only, alle in ((False, False), (False, True), (True, False)):
            out.append({"id": f"{n}-only{int(only)}-all{int(alle)}", "struct": n,
                        "params": {"only": only, "alle": alle, "zero": False, "showzero": False}})
    for n in (("B",) if tier == "quick" else ("B", "C", "E")):
        for showzero in (False, True):
            out.append({"id": f"{n}-zero-show{int(showzero)}", "struct": n,
                        "params": {"only": False, "alle": True, "zero": True, "showzero": showzero}})
    return out


def same(a, b):
    if isinstance(a, dict):
        if not isinstance(b, dict) or list(a.keys()) != list(b.keys()):
            return False
        return sand(*[same(a[k], b[k]) for k in a])
    if isinstance(a, list):
        return isinstance(b, list) and len(a) == len(b) and sand(*[same(x, y) for x, y in zip(a, b)])
    return a == b


def run(ctx):
    P = ctx.params
    R = CP.run_analysis(ctx, CP.STRUCTS[ctx.sk["struct"]], "", None, P["zero"], False, "all",
                        real_longest_path=ctx.sk["struct"] in ("I", "A", "E"))
    res = R["res"]
    ctx.prove(res is not None and res[1] is True, "analysis-succeeds", None)
    if res is None or res[1] is not True:
        return
    g, ta = res[0], R["ta"]
    src = R["events"]
    if P["showzero"]:
        os.environ["CRITICAL_PATH_SHOW_ZERO_WEIGHT_LAUNCH_EDGE"] = "1"
    else:
        os.environ.pop("CRITICAL_PATH_SHOW_ZERO_WEIGHT_LAUNCH_EDGE", None)
    written = {}
    if ctx.mode == "sym":
        ta.t.write_raw_trace = lambda f, content: written.__setitem__(f, content)
        outdir = "/symx-out"
        CPA = ctx.mods["hta.analyzers.critical_path_analysis"]
        saved_makedirs, saved_path = CPA.os.makedirs, CPA.Path
        CPA.os = type("OS", (), {"makedirs": staticmethod(lambda *a, **k: None), "path": os.path})
        try:
            f = ta.overlay_critical_path_analysis(0, g, outdir, only_show_critical_events=P["only"],
                                                  show_all_edges=P["alle"])
        finally:
            CPA.os = os
        out = written.get(f, {}).get("traceEvents")
    else:
        import hta.analyzers.critical_path_analysis as CPA
        outdir = os.path.join(ctx.outdir, "..", "overlay")
        f = ta.overlay_critical_path_analysis(0, g, outdir, only_show_critical_events=P["only"], show_all_edges=P["alle"])
        out = _read_json(f)["traceEvents"] if os.path.exists(f) else None
    os.environ.pop("CRITICAL_PATH_SHOW_ZERO_WEIGHT_LAUNCH_EDGE", None)
    ctx.prove(out is not None, "overlay-file-written", {"file": f})
    if out is None:
        return
    crit = {int(x) for x in g.critical_path_events_set}
    T = CPA.CPEdgeType
    # ---- which edges are drawn ---------------------------------------------------------------------------
    alle = P["alle"] and not P["only"]
    if alle:
        drawn = [e for e in CP.edge_objects(g)]
        if not P["showzero"]:
            keep = []
            for e in drawn:
                if e.type == T.KERNEL_LAUNCH_DELAY and (e.weight == 0 if ctx.mode != "sym" else bool(e.weight == 0)):
                    continue
                keep.append(e)
            drawn = keep
    else:
        drawn = list(g.critical_path_edges_set)
    # ---- source events ---------------------------------------------------------------------------------------
    if not P["only"]:
        kept = list(range(len(src)))
    else:
        kept = [i for i, e in enumerate(src) if e["ph"] != "X" or e.get("cat", "") in ("user_annotation", "python_function")
                or i in crit]
    ctx.prove(len(out) == len(kept) + 2 * len(drawn), "file-length", {"len": len(out), "kept": len(kept),
                                                                      "drawn": len(drawn)})
    if len(out) != len(kept) + 2 * len(drawn):
        return
    for pos, i in enumerate(kept):
        want = json.loads(json.dumps(src[i], default=lambda o: None)) if False else src[i]
        got = out[pos]
        if i in crit:
            ok = isinstance(got.get("args"), dict) and got["args"].get("critical") == 1
            ctx.prove(ok, "critical-event-marked", {"event": i})
            g2 = dict(got)
            g2["args"] = {k: v for k, v in got.get("args", {}).items() if k != "critical"}
            ctx.prove(same(want, g2), "source-event-preserved", {"event": i})
        else:
            ctx.prove("critical" not in got.get("args", {}) if isinstance(got.get("args"), dict) else True,
                      "non-critical-event-not-marked", {"event": i})
            ctx.prove(same(want, got), "source-event-preserved", {"event": i})
    # ---- flow events -------------------------------------------------------------------------------------------
    flows = out[len(kept):]
    used = [False] * len(drawn)
    crit_edges = {(int(e.begin), int(e.end)) for e in g.critical_path_edges_set}
    for j in range(0, len(flows), 2):
        s, f_ = flows[j], flows[j + 1]
        d = {"flow": j // 2}
        ctx.prove(s.get("ph") == "s" and f_.get("ph") == "f" and f_.get("bp") == "e" and s.get("id") == f_.get("id")
                  and s.get("name") == "critical_path" == f_.get("name"), "flow-pair-shape", d)
        match = False
        for n, e in enumerate(drawn):
            if used[n]:
                continue
            a, b = g.node_list[e.begin], g.node_list[e.end]
            ea, eb = src[int(a.ev_idx)], src[int(b.ev_idx)]

            def tsof(node, ev):
                end = ev["ts"] + ev["dur"]
                if ev["args"].get("device", -1) >= 0:
                    end = end - smin(1, ev["dur"])
                return ev["ts"] if bool(node.is_start) else end
            c = sand(s.get("pid") == ea["pid"], s.get("tid") == ea["tid"], f_.get("pid") == eb["pid"],
                     f_.get("tid") == eb["tid"], s.get("cat") == str(e.type.value) == f_.get("cat"),
                     s.get("ts") == tsof(a, ea), f_.get("ts") == tsof(b, eb),
                     s.get("args", {}).get("weight") == e.weight,
                     bool(s.get("args", {}).get("critical")) == ((int(e.begin), int(e.end)) in crit_edges))
            if c is not False and (ctx.mode != "sym" or ctx.ex.holds(c)):
                used[n] = True
                match = True
                break
        ctx.prove(match, "flow-pair-matches-a-drawn-edge", d)
    ctx.prove(all(used), "every-drawn-edge-has-a-flow-pair", {"missing": [n for n, u in enumerate(used) if not u]})
    # ---- a later write from the same object must again start from the unchanged source events -------------------
    if R["K"]:
        written.clear()
        ta.generate_trace_with_counters(ranks=[0])
        if ctx.mode == "sym":
            key = [k for k in written if "with_counters" in k]
            out2 = written[key[0]]["traceEvents"] if key else None
        else:
            fn = os.path.join(ctx.outdir, "rank0_with_counters.json")
            out2 = _read_json(fn)["traceEvents"] if os.path.exists(fn) else None
        ctx.prove(out2 is not None and len(out2) >= len(src), "counters-file-after-overlay-written", None)
        if out2 is not None and len(out2) >= len(src):
            ok = True
            for a, b in zip(src, out2[:len(src)]):
                ok = sand(ok, same(a, b))
            ctx.prove(ok, "later-write-starts-from-unchanged-source-events", None)
    if ctx.mode == "sym" and (len(drawn) >= 3 or ctx.sk["struct"] == "I"):
        ctx.nontrivial(True)


def signature(label, sk, detail):
    return f"{ID}/{label}"
