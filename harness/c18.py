"""C18 — trace filters are pure row selections with the documented predicates."""
import re

from harness.common import sand, sor, snot
from symx.engine import site

ID = "C18"
MODULES = ["hta.common.trace_filter", "hta.common.trace_symbol_table"]
MUST_NOT_RAISE = True
BUDGET_S = {"quick": 300, "thorough": 1200}
VOCAB = ["aten::mm", "cudaLaunchKernel", "gemm_kernel", "Event Sync", "Context Sync", "Memcpy DtoD (Device -> Device)",
         "ncclKernel_AllReduce", "cpu_op", "kernel", "gpu_memcpy", "cuda_sync", "cuda_runtime"]
NAMES = VOCAB[:7]
BOUNDS = {
    "quick": "frames of 3 rows (2 for compositions of 3 filters); symbolic iteration in [-1,2], rank in [0,2], ts/dur Int, "
             "stream in {-1,0,7}, correlation in [-1,1], name id over a 7-name vocabulary; index labels with a duplicate; "
             "filter parameters symbolic (iteration value, time bounds) or small lists; 9 filter classes, with/without "
             "symbol table, encoded and decoded (str dtype) frames; pairwise compositions",
    "thorough": "frames of 4 rows; all ordered pairs of row-local filters",
}
EXPLANATION = ("Every class of hta.common.trace_filter applied to a directly constructed event frame. A hidden position "
               "column identifies which input rows came out. Obligations: output row i present <=> documented predicate(row "
               "i) (solver, per path); same order, labels and cells; input frame unchanged; CompositeFilter([f,g]) = g(f(.)); "
               "row-local filters commute, intersect and are idempotent; IterationIndexFilter selects by position among the "
               "iterations present. Non-trivial path = some row selected and some row rejected.")
ASSUMPTIONS = ["frame columns as produced by the loader (index, iteration, rank, ts, dur, stream, correlation, name, cat)",
               "name patterns are concrete regular expressions over a fixed vocabulary"]
STUBS = ["logging"]

FILTERS = ["iter-val", "iter-list", "iter-index0", "iter-index-list", "first-iter", "rank", "rank-list", "time", "name-sym",
           "name-sym-ctor", "gpu-sym", "gpu-nosym", "cpu-sym", "cpu-nosym", "memcpy", "zero-dur"]
ROW_LOCAL = ["iter-val", "rank-list", "time", "name-sym", "gpu-sym", "cpu-nosym", "zero-dur"]


def skeletons(tier):
    out = []
    n = 3 if tier == "quick" else 4
    for f in FILTERS:
        out.append({"id": f"one-{f}", "kind": "one", "f": [f], "n": n, "params": {}})
    out.append({"id": "one-name-decoded", "kind": "one", "f": ["name-str"], "n": n, "params": {"decoded": True}})
    out.append({"id": "one-name-decoded-nomatch", "kind": "one", "f": ["name-str2"], "n": n, "params": {"decoded": True}})
    pairs = [(a, b) for a in ROW_LOCAL for b in ROW_LOCAL if a < b]
    if tier == "quick":
        pairs = pairs[::2]
    for a, b in pairs:
        out.append({"id": f"pair-{a}+{b}", "kind": "pair", "f": [a, b], "n": n, "params": {}})
    for a in ROW_LOCAL:
        out.append({"id": f"twice-{a}", "kind": "pair", "f": [a, a], "n": n, "params": {}})
    out.append({"id": "comp-iterindex+rank", "kind": "seq", "f": ["iter-index0", "rank"], "n": n, "params": {}})
    out.append({"id": "comp-time+iterindex+gpu", "kind": "seq", "f": ["time", "iter-index-list", "gpu-sym"], "n": 2,
                "params": {}})
    return out


def make_symtab(ctx):
    if ctx.mode == "sym":
        T = ctx.mods["hta.common.trace_symbol_table"].TraceSymbolTable
    else:
        from hta.common.trace_symbol_table import TraceSymbolTable as T
    st = T()
    st.add_symbols(VOCAB)
    return st


def make_filter(ctx, code, st):
    """-> (filter object, call-with-symtab?, predicate(row, frame_rows) -> bool cell, row_local)"""
    if ctx.mode == "sym":
        F = ctx.mods["hta.common.trace_filter"]
    else:
        import hta.common.trace_filter as F
    v = lambda n, lo, hi: _var(ctx, n, lo, hi)  # noqa: E731
    sid = st.get_sym_id_map()
    if code == "iter-val":
        x = v("p_iter", -1, 2)
        return F.IterationFilter(x), True, lambda r, R: r["iteration"] == x
    if code == "iter-list":
        return F.IterationFilter([0, 2]), True, lambda r, R: sor(r["iteration"] == 0, r["iteration"] == 2)
    if code in ("iter-index0", "first-iter", "iter-index-list"):
        idxs = [0] if code != "iter-index-list" else [1, 2]
        f = F.FirstIterationFilter() if code == "first-iter" else F.IterationIndexFilter(
            idxs if code != "iter-index0" else 0)

        def pred(r, R):
            allneg = sand(*[x["iteration"] == -1 for x in R])
            pos = 0
            for c in range(0, 3):
                pos = pos + site(sand(c < r["iteration"], sor(*[x["iteration"] == c for x in R])), 1, 0)
            return sor(allneg, sand(r["iteration"] != -1, sor(*[pos == k for k in idxs])))
        return f, True, pred
    if code == "rank":
        return F.RankFilter(1), True, lambda r, R: r["rank"] == 1
    if code == "rank-list":
        return F.RankFilter([0, 2]), True, lambda r, R: sor(r["rank"] == 0, r["rank"] == 2)
    if code == "time":
        a, b = v("p_t0", 0, None), v("p_t1", 0, None)
        ctx.assume(a <= b)
        return F.TimeRangeFilter((a, b)), True, lambda r, R: sand(r["ts"] >= a, r["ts"] + r["dur"] <= b)
    if code in ("name-sym", "name-sym-ctor"):
        pat = "aten|.*Kernel"
        ids = [sid[s] for s in VOCAB if re.match(pat, s)]
        f = F.NameFilter(pat) if code == "name-sym" else F.NameFilter(pat, symbol_table=st)
        return f, code == "name-sym", lambda r, R: sor(*[r["name"] == i for i in ids])
    if code in ("name-str", "name-str2"):
        pat = "aten|.*Kernel" if code == "name-str" else "nothing-matches"
        return F.NameFilter(pat), False, lambda r, R: re.match(pat, r["name"]) is not None
    if code in ("gpu-sym", "gpu-nosym", "cpu-sym", "cpu-nosym"):
        sync = [sid["Event Sync"], sid["Context Sync"]]

        def dev(r, R, withsym=code.endswith("-sym")):
            d = sand(r["stream"] >= 0, r["correlation"] >= 0)
            return sor(d, *[r["name"] == i for i in sync]) if withsym else d
        if code.startswith("gpu"):
            return F.GPUKernelFilter(), code == "gpu-sym", dev
        if code == "cpu-sym":
            return F.CPUOperatorFilter(), True, lambda r, R: snot(dev(r, R))
        return F.CPUOperatorFilter(), False, lambda r, R: r["stream"] == -1
    if code == "memcpy":
        t = "Memcpy DtoD (Device -> Device)"
        return F.MemCopyEventFilter(t), True, lambda r, R: sand(r["name"] == sid[t], r["cat"] == sid["gpu_memcpy"])
    if code == "zero-dur":
        return F.ZeroDurationFilter, True, lambda r, R: r["dur"] > 0
    raise ValueError(code)


def _var(ctx, n, lo, hi):
    ctx.sk.setdefault("vars", {})[n] = ["int", lo, hi]
    return ctx.val("$" + n)


def build_frame(ctx, n, decoded, st):
    if ctx.mode == "sym":
        from symx import sympd as pd
    else:
        import pandas as pd
    sid = st.get_sym_id_map()
    rows = []
    for i in range(n):
        r = {"_pos": i, "index": 10 + i,
             "iteration": _var(ctx, f"r{i}_it", -1, 2), "rank": _var(ctx, f"r{i}_rank", 0, 2),
             "ts": _var(ctx, f"r{i}_ts", 0, None), "dur": _var(ctx, f"r{i}_dur", 0, None),
             "stream": _var(ctx, f"r{i}_stream", -1, 7), "correlation": _var(ctx, f"r{i}_corr", -1, 1)}
        ctx.assume(sor(r["stream"] == -1, r["stream"] == 0, r["stream"] == 7))
        if decoded:
            r["name"] = NAMES[(2 * i) % len(NAMES)]
            r["cat"] = "cpu_op" if i % 2 == 0 else "kernel"
        else:
            r["name"] = _var(ctx, f"r{i}_name", 0, len(NAMES) - 1)
            r["cat"] = _var(ctx, f"r{i}_cat", sid["cpu_op"], sid["gpu_memcpy"])
        rows.append(r)
    labels = [10 + i for i in range(n)]
    if n >= 3:
        labels[2] = labels[1]          # a duplicated index label
    cols = list(rows[0].keys())
    df = pd.DataFrame({c: [r[c] for r in rows] for c in cols}, index=labels)
    return df, rows, labels, cols


def snapshot(ctx, df, cols):
    return {c: ctx.cells(df[c]) for c in cols}, ctx.cells(df.index)


def check_selection(ctx, tag, out, rows, labels, cols, pred):
    """out must consist of exactly the rows with pred, in order, with identical cells and labels."""
    if len(out) == 0:
        for r in rows:
            ctx.prove(snot(pred(r, rows)), f"{tag}:row-rejected-only-if-predicate-false", {"row": r["_pos"]})
        return []
    pos = [int(x) for x in ctx.cells(out["_pos"])]
    ctx.prove(all(a < b for a, b in zip(pos, pos[1:])), f"{tag}:order-preserved", {"pos": pos})
    ctx.prove([int(x) for x in ctx.cells(out.index)] == [labels[i] for i in pos], f"{tag}:labels-preserved", {"pos": pos})
    ctx.prove(list(out.columns) == cols, f"{tag}:columns-preserved", {"cols": list(out.columns)})
    for r in rows:
        i = r["_pos"]
        if i in pos:
            ctx.prove(pred(r, rows), f"{tag}:row-selected-only-if-predicate-true", {"row": i})
        else:
            ctx.prove(snot(pred(r, rows)), f"{tag}:row-rejected-only-if-predicate-false", {"row": i})
    if list(out.columns) == cols:
        for c in cols:
            vals = ctx.cells(out[c])
            for j, i in enumerate(pos):
                ctx.prove(vals[j] == rows[i][c], f"{tag}:cells-unchanged", {"col": c, "row": i})
    return pos


def run(ctx):
    sk = ctx.sk
    st = make_symtab(ctx)
    decoded = ctx.params.get("decoded", False)
    df, rows, labels, cols = build_frame(ctx, sk["n"], decoded, st)
    before = snapshot(ctx, df, cols)
    fs = [make_filter(ctx, code, st) for code in sk["f"]]

    def apply(f, x):
        flt, withsym, _ = f
        return flt(x, st) if withsym else flt(x)

    sel_any = False
    if sk["kind"] == "one":
        out = apply(fs[0], df)
        pos = check_selection(ctx, sk["f"][0], out, rows, labels, cols, fs[0][2])
        sel_any = 0 < len(pos) < len(rows)
    elif sk["kind"] == "pair":
        f, g = fs
        both = lambda r, R: sand(f[2](r, R), g[2](r, R))  # noqa: E731
        fg = apply(g, apply(f, df))
        gf = apply(f, apply(g, df))
        p1 = check_selection(ctx, "g(f(x))", fg, rows, labels, cols, both)
        p2 = check_selection(ctx, "f(g(x))", gf, rows, labels, cols, both)
        ctx.prove(p1 == p2, "row-local-filters-commute", {"fg": p1, "gf": p2})
        if ctx.mode == "sym":
            F = ctx.mods["hta.common.trace_filter"]
        else:
            import hta.common.trace_filter as F
        if f[1] and g[1] and hasattr(f[0], "__call__") and isinstance(f[0], F.Filter) and isinstance(g[0], F.Filter):
            comp = F.CompositeFilter([f[0], g[0]])(df, st)
            p3 = check_selection(ctx, "composite", comp, rows, labels, cols, both)
            ctx.prove(p3 == p1, "composite-equals-sequential", {"comp": p3, "seq": p1})
        sel_any = 0 < len(p1) < len(rows)
    else:
        if ctx.mode == "sym":
            F = ctx.mods["hta.common.trace_filter"]
        else:
            import hta.common.trace_filter as F
        seq = df
        for f in fs:
            seq = apply(f, seq)
        comp = F.CompositeFilter([f[0] for f in fs])(df, st)
        ps = [int(x) for x in ctx.cells(seq["_pos"])] if len(seq) else []
        pc = [int(x) for x in ctx.cells(comp["_pos"])] if len(comp) else []
        ctx.prove(ps == pc, "composite-equals-sequential", {"comp": pc, "seq": ps})
        if len(comp):
            ctx.prove([int(x) for x in ctx.cells(comp.index)] == [labels[i] for i in pc], "composite:labels-preserved",
                      None)
        sel_any = 0 < len(pc) < len(rows)
    after = snapshot(ctx, df, cols)
    same = before[1] == after[1]
    ok = True
    for c in cols:
        for a, b in zip(before[0][c], after[0][c]):
            ok = sand(ok, a == b)
    ctx.prove(sand(same, ok), "input-frame-unmodified", None)
    if ctx.mode == "sym" and sel_any:
        ctx.nontrivial(True)


def signature(label, sk, detail):
    return f"{ID}/{label}"
