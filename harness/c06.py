"""C06 — idle-time breakdown: gaps between stream-consecutive kernels, classified by rule."""
from harness.common import precalls, sand, sor, snot
from symx import tracegen as TG
from symx.engine import site, smax

ID = "C06"
MODULES = ["hta.trace_analysis"]
MUST_NOT_RAISE = True
BUDGET_S = {"quick": 420, "thorough": 1200}
CATS = {0: "host_wait", 1: "kernel_wait", 2: "other"}
BOUNDS = {
    "quick": "1..3 linked launch/kernel pairs on 1 or 2 streams (all stream assignments up to symmetry), streams "
             "argument None or one explicit list; symbolic Int ts/dur for kernels and launch calls; symbolic threshold",
    "thorough": "1..4 pairs on <= 2 streams, every stream-subset argument, one extra cuda_sync-category row that "
                "must be ignored",
}
EXPLANATION = ("Real TraceAnalysis.get_idle_time_breakdown (BreakdownAnalysis.get_idle_time_breakdown, "
               "_analyze_idle_time_for_stream) on traces loaded through the real pipeline (so the launch call is found "
               "through the real correlation links). Oracle (no sorting): predecessor of a kernel = kernels of the "
               "stream ordered before it by (start, end, id); gap = start - max predecessor end; category by the "
               "stated rule. Obligations per stream: each category's idle_time = sum of its gaps (0 if the row is "
               "absent), categories add up to span - busy, idle_time_ratio = idle_time/total (when total > 0). "
               "Non-trivial path = admits two different categories with positive time on one stream.")
ASSUMPTIONS = ["well-formed: host calls pairwise nested or disjoint, each correlation id pairs one launch with one "
               "kernel, event 0 is a host operator", "kernels of one stream do not overlap (touching and zero length "
               "allowed)", "kernel.ts >= launch.ts is NOT assumed", "round(x,2) modelled as within 0.005", "JSON reading stubbed"]
STUBS = ["hta.common.trace_parser.parse_trace_dict", "Trace._validate_trace_files", "plotly", "logging"]
S1, S2 = 7, 20


def skeletons(tier):
    out = []
    maxn = 3 if tier == "quick" else 4
    for n in range(1, maxn + 1):
        # stream assignment words over {a,b}, first kernel on a (symmetry)
        words = ["a" + "".join(w) for w in __import__("itertools").product("ab", repeat=n - 1)]
        for w in words:
            args = [None] if tier == "quick" else [None, [S1], [S2], [S1, S2], [S2, S1]]
            if tier == "quick" and n == 2:
                args = [None, [S1]]
            for a in args:
                out.append({"id": f"{w}-streams{a}", "word": w, "params": {"streams": a, "sync": False}})
    for w in ("ab", "bb", "aab"):
        out.append({"id": f"{w}-second-rank", "word": w, "params": {"streams": None, "sync": False, "lead": True}})
    for pre in ("temporal", "queue", "launch", "kernels"):
        out.append({"id": f"aa-after-{pre}", "word": "aa", "params": {"streams": None, "sync": False, "pre": [pre]}})
    if tier == "thorough":
        for w in ["aa", "ab", "aab"]:
            out.append({"id": f"{w}-sync", "word": w, "params": {"streams": None, "sync": True}})
    return out


def build(sk):
    ev = [TG.op("aten::mm", "$op_ts", "$op_dur")]
    ks = []
    for i, ch in enumerate(sk["word"]):
        st = S1 if ch == "a" else S2
        ev.append(TG.runtime("cudaLaunchKernel", f"$l{i}_ts", f"$l{i}_dur", corr=100 + i))
        ev.append(TG.kernel("gemm_kernel" if i % 2 == 0 else "Memcpy DtoD (Device -> Device)", f"$k{i}_ts",
                            f"$k{i}_dur", stream=st, corr=100 + i, cat="kernel" if i % 2 == 0 else "gpu_memcpy"))
        ks.append({"i": i, "id": 2 + 2 * i, "stream": st, "ts": f"$k{i}_ts", "dur": f"$k{i}_dur", "lts": f"$l{i}_ts",
                   "ldur": f"$l{i}_dur"})
    if sk["params"].get("sync"):
        ev.append(TG.kernel("Stream Sync", "$s_ts", "$s_dur", stream=S1, corr=900, cat="cuda_sync"))
    return ev, ks


def run(ctx):
    ev, ks = build(ctx.sk)
    events = ctx.val(ev)
    K = [{**k, "ts": ctx.val(k["ts"]), "dur": ctx.val(k["dur"]), "lts": ctx.val(k["lts"]),
          "ldur": ctx.val(k["ldur"])} for k in ks]
    thr = ctx.val("$thr")
    # ---- preconditions ---------------------------------------------------------------
    host = [(ctx.val("$op_ts"), ctx.val("$op_ts") + ctx.val("$op_dur"))] + [(k["lts"], k["lts"] + k["ldur"]) for k in K]
    for a in range(len(host)):
        for b in range(a + 1, len(host)):
            (s1, e1), (s2, e2) = host[a], host[b]
            ctx.assume(sor(e1 <= s2, e2 <= s1, sand(s1 <= s2, e2 <= e1), sand(s2 <= s1, e1 <= e2)))
    for k in K:
        k["end"] = k["ts"] + k["dur"]
        pass      # kernel.ts >= launch.ts is not assumed: the quantifier does not ask for causal consistency
    for a in range(len(K)):
        for b in range(a + 1, len(K)):
            if K[a]["stream"] == K[b]["stream"]:
                ctx.assume(sor(K[a]["end"] <= K[b]["ts"], K[b]["end"] <= K[a]["ts"]))
    R = 0
    if ctx.params.get("lead"):
        # "every ... rank": another rank is requested first in the same call; it has a single kernel on the first stream
        # only (so it contributes no gap); the rank under test is rank 1 and may use a stream rank 0 does not have
        lead = ctx.val([TG.op("aten::mm", "$zop_ts", "$zop_dur"),
                        TG.runtime("cudaLaunchKernel", "$zl_ts", "$zl_dur", corr=100),
                        TG.kernel("gemm_kernel", "$zk_ts", "$zk_dur", stream=S1, corr=100)])
        zo, zl = (ctx.val("$zop_ts"), ctx.val("$zop_ts") + ctx.val("$zop_dur")), (ctx.val("$zl_ts"), ctx.val("$zl_ts") + ctx.val("$zl_dur"))
        ctx.assume(sor(zo[1] <= zl[0], zl[1] <= zo[0], sand(zo[0] <= zl[0], zl[1] <= zo[1]), sand(zl[0] <= zo[0], zo[1] <= zl[1])))
        ta = ctx.open({0: lead, 1: events})
        R = 1
    else:
        ta = ctx.open({0: events})
    streams = ctx.params["streams"]
    precalls(ctx, ta)
    res, _ = ta.get_idle_time_breakdown(ranks=[0, 1] if R else [0], streams=streams, visualize=False,
                                        consecutive_kernel_delay=thr)
    all_rank = [int(x) for x in ctx.cells(res["rank"])]
    ctx.prove(all(x in (0, R) for x in all_rank), "rank-column", None)
    keep = [j for j, x in enumerate(all_rank) if x == R]
    if R:
        lead_time = [v for j, v in enumerate(ctx.cells(res["idle_time"])) if all_rank[j] == 0]
        ctx.prove(sand(*[v == 0 for v in lead_time]) if lead_time else True, "single-kernel-rank-has-no-idle-time", None)
    r_stream = [int(x) for j, x in enumerate(ctx.cells(res["stream"])) if j in keep]
    r_cat = [str(x) for j, x in enumerate(ctx.cells(res["idle_category"])) if j in keep]
    r_time = [x for j, x in enumerate(ctx.cells(res["idle_time"])) if j in keep]
    r_ratio = [x for j, x in enumerate(ctx.cells(res["idle_time_ratio"])) if j in keep]
    ctx.prove(all(c in CATS.values() for c in r_cat), "category-names", {"cats": r_cat})
    want_streams = sorted({k["stream"] for k in K}) if not streams else list(streams)
    ctx.prove(set(r_stream) <= set(want_streams), "streams-reported", {"got": r_stream})
    ctx.prove(len({(s, c) for s, c in zip(r_stream, r_cat)}) == len(r_cat), "rows-unique", None)

    def oracle():
        out = {}
        for st in sorted({k["stream"] for k in K}):
            mine = [k for k in K if k["stream"] == st]
            sums = {0: 0, 1: 0, 2: 0}
            for k in mine:
                prev_end, has_prev = -1, False
                for j in mine:
                    if j is k:
                        continue
                    before = sor(j["ts"] < k["ts"], sand(j["ts"] == k["ts"], sor(
                        j["end"] < k["end"], sand(j["end"] == k["end"], j["id"] < k["id"]))))
                    prev_end = site(before, smax(prev_end, j["end"]), prev_end)
                    has_prev = sor(has_prev, before)
                gap = k["ts"] - prev_end
                hw = k["lts"] > prev_end
                kw = sand(snot(hw), gap < thr)
                for c, cond in ((0, hw), (1, kw), (2, sand(snot(hw), snot(kw)))):
                    sums[c] = sums[c] + site(sand(has_prev, cond), gap, 0)
            span = 0
            busy = 0
            first = mine[0]["ts"]
            last = mine[0]["end"]
            for k in mine:
                busy = busy + k["dur"]
                first = site(k["ts"] < first, k["ts"], first)
                last = smax(last, k["end"])
            out[st] = (sums, last - first - busy)
        return out

    orc = ctx.cached("oracle", oracle)
    nontriv = False
    for st in want_streams:
        if st not in orc:
            ctx.prove(st not in r_stream, "absent-stream-has-no-rows", {"stream": st})
            continue
        sums, idle_total = orc[st]
        rows = {c: j for j, (s, c) in enumerate(zip(r_stream, r_cat)) if s == st}
        total = 0
        for ci, cname in CATS.items():
            d = {"stream": st, "category": cname}
            if cname in rows:
                v = r_time[rows[cname]]
                total = total + v
                ctx.prove(v == sums[ci] if ctx.mode == "sym" else abs(v - sums[ci]) <= 0.005, "category-time", d)
            else:
                ctx.prove(sums[ci] == 0, "category-row-missing", d)
        ctx.prove(total == idle_total if ctx.mode == "sym" else abs(total - idle_total) <= 0.02,
                  "categories-sum-to-span-minus-busy", {"stream": st})
        for ci, cname in CATS.items():
            if cname not in rows:
                continue
            rt = r_ratio[rows[cname]]
            d = {"stream": st, "category": cname}
            if ctx.mode == "sym":
                if isinstance(rt, float) and rt != rt:
                    continue
                ctx.prove_ratio(rt, sums[ci], idle_total, "ratio", d, scale=1, places=2)
            elif idle_total > 0:
                ctx.prove(abs(rt - sums[ci] / idle_total) <= 0.005 + 1e-9, "ratio", dict(d, got=rt))
        if ctx.mode == "sym":
            pos = [sums[c] > 0 for c in sums]
            nontriv = sor(nontriv, sand(pos[0], pos[1]), sand(pos[0], pos[2]), sand(pos[1], pos[2]))
    if ctx.mode == "sym":
        ctx.nontrivial(nontriv if len(K) >= 3 else True)


def signature(label, sk, detail):
    return f"{ID}/{label}"
