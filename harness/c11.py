"""C11 — symbol ids are a stable bijection; results ignore id numbering and parse order."""
import itertools

from harness.common import sand
from symx import tracegen as TG
from symx import engine as E

ID = "C11"
MODULES = ["hta.trace_analysis", "hta.common.trace_symbol_table"]
MUST_NOT_RAISE = True
BUDGET_S = {"quick": 420, "thorough": 1200}
VOC = ["alpha", "beta", "gamma", "delta"]
BOUNDS = {
    "quick": "histories: 3 add_symbols calls of <= 2 symbols each, symbols = solver-chosen indices into a 4-string "
             "vocabulary (repeats reachable), plus clone / combine / add_symbols_mp under every queue interleaving of 2 "
             "producers; ranks: 2 rank files with different vocabularies, set iteration order = any rotation/reversal, "
             "sequential and pool parsing, also with 70 distinct names per rank (union vocabulary > 127 symbols); independence: 6 analysis entry points run under two different id numberings of "
             "one symbolic 2-kernel trace",
    "thorough": "4 calls x <= 2 symbols; 3 ranks; 3 producers; independence on 4 traces",
}
EXPLANATION = ("(a) real TraceSymbolTable.add_symbols / add_symbols_mp / clone / combine_symbol_tables driven by solver-chosen "
               "symbol sequences: after every step sym_table[sym_index[s]] == s, ids dense, earlier ids unchanged. (b) real "
               "Trace.parse_traces on several ranks (sequential and pool path) with the builtin set of _compress_df replaced "
               "by a set whose iteration order is nondeterministic: every row decodes to its file's name and category, the "
               "global table is a bijection. (c) get_temporal_breakdown, get_comm_comp_overlap, get_gpu_kernel_breakdown, "
               "get_queue_length_time_series, get_cuda_kernel_launch_stats, get_idle_time_breakdown run twice on the same "
               "symbolic trace under two different numberings; outputs must be equal cell by cell (solver equality). "
               "Non-trivial path = a history with a repeated symbol / two numberings that really differ.")
ASSUMPTIONS = ["symbols come from a finite vocabulary (solver-driven enumeration, not arbitrary strings)",
               "PYTHONHASHSEED variation is modelled by nondeterministic set iteration order (rotations and reversal of the "
               "insertion order), OS scheduling by an in-process pool whose map returns results in input order and a manager "
               "queue delivering any interleaving that preserves each producer's order", "JSON reading stubbed"]
STUBS = ["hta.common.trace_parser.parse_trace_dict", "Trace._validate_trace_files", "multiprocessing Pool / Manager().Queue",
         "builtin set inside hta.common.trace_parser", "plotly", "logging"]
TIE_MODE = "stable"


def skeletons(tier):
    out = []
    steps = 3 if tier == "quick" else 4
    for lens in itertools.product((1, 2), repeat=steps):
        if tier == "quick" and sum(lens) > 5:
            continue
        out.append({"id": "hist-" + "".join(map(str, lens)), "fam": "hist", "lens": list(lens), "params": {}})
    out.append({"id": "mp-2x2", "fam": "mp", "lists": [2, 2], "params": {}})
    for n in ((2, 3) if tier == "quick" else (2, 3, 4)):
        out.append({"id": f"df-{n}", "fam": "df", "rows": n, "params": {}})
    if tier == "thorough":
        out.append({"id": "mp-2x2x1", "fam": "mp", "lists": [2, 2, 1], "params": {}})
    for mpool in (False, True):
        out.append({"id": f"ranks2-pool{int(mpool)}", "fam": "ranks", "nranks": 2, "params": {"pool": mpool}})
        if tier == "thorough":
            out.append({"id": f"ranks3-pool{int(mpool)}", "fam": "ranks", "nranks": 3, "params": {"pool": mpool}})
    hist = [("s0-m1", [["single", 0], ["multi", [1]]]), ("s1-m0", [["single", 1], ["multi", [0]]]),
            ("m1-m0", [["multi", [1]], ["multi", [0]]])]
    if tier == "thorough":
        hist += [("s1-s0", [["single", 1], ["single", 0]]), ("m0-s1", [["multi", [0]], ["single", 1]])]
    for hid, steps in hist:
        out.append({"id": f"ranks2-steps-{hid}", "fam": "ranks", "nranks": 2, "params": {"pool": False, "steps": steps}})
    if tier == "thorough":
        out.append({"id": "ranks3-steps-s0-m12", "fam": "ranks", "nranks": 3,
                    "params": {"pool": True, "steps": [["single", 0], ["multi", [1, 2]]]}})
    for mpool in (False, True):
        out.append({"id": f"ranks2-bigvocab-pool{int(mpool)}", "fam": "ranks", "nranks": 2,
                    "params": {"pool": mpool, "big": 70 if tier == "quick" else 140}})
    # nrot = number of rotations of the vocabulary's insertion order tried for the second numbering (x reversal): with
    # nrot >= |vocabulary| - 1 every symbol receives id 0 (and the last id) in some numbering
    words = [("CN", 2), ("C", 5), ("M", 5)] if tier == "quick" else [("CNM", 5), ("CCN", 5), ("NNM", 5), ("CN", 6), ("CM", 8),
                                                                    ("C", 5), ("M", 5)]
    for w, nrot in words:
        out.append({"id": f"indep-{w}", "fam": "indep", "word": w, "params": {"nrot": nrot}})
    return out


# ---------------------------------------------------------------------------
# nondeterministic set (models hash-seed dependent iteration order)
# ---------------------------------------------------------------------------

class NDSet(set):
    """a set whose iteration order is chosen nondeterministically among the rotations of the insertion order and
    their reversals (2m orders for m elements)."""
    ctx = None
    forced = None     # ('rot', r, rev) to force an order (independence family)

    def __init__(self, it=()):
        super().__init__()
        self._order = []
        for x in it:
            self.add(x)

    def add(self, x):
        if x not in self:
            super().add(x)
            self._order.append(x)

    def union(self, *others):
        r = NDSet(self._order)
        for o in others:
            for x in (o._order if isinstance(o, NDSet) else o):
                r.add(x)
        return r

    def __iter__(self):
        o = list(self._order)
        m = len(o)
        if m <= 1:
            return iter(o)
        if NDSet.forced is not None:
            r, rev = NDSet.forced
        elif NDSet.ctx is not None:
            r = NDSet.ctx.choose(m)
            rev = NDSet.ctx.choose(2)
        else:
            r, rev = 0, 0
        r %= m
        o = o[r:] + o[:r]
        return iter(o[::-1] if rev else o)


def check_bijection(ctx, st, tag):
    tab, idx = st.get_sym_table(), st.get_sym_id_map()
    ctx.prove(len(tab) == len(idx) and len(set(tab)) == len(tab), f"{tag}:table-has-no-duplicates", {"table": list(tab)})
    ctx.prove(all(0 <= idx[s] < len(tab) and tab[idx[s]] == s for s in idx), f"{tag}:decode-encode-identity", None)
    ctx.prove(sorted(idx.values()) == list(range(len(tab))), f"{tag}:ids-dense", None)


def run_hist(ctx):
    T = ctx.mods["hta.common.trace_symbol_table"].TraceSymbolTable if ctx.mode == "sym" else \
        __import__("hta.common.trace_symbol_table", fromlist=["x"]).TraceSymbolTable
    st = T()
    seen_ids = {}
    rep = False
    allsyms = []
    for k, n in enumerate(ctx.sk["lens"]):
        syms = []
        for j in range(n):
            ctx.sk.setdefault("vars", {})[f"s{k}_{j}"] = ["int", 0, len(VOC) - 1]
            v = ctx.val(f"$s{k}_{j}")
            v = E.cur().concretize(v) if ctx.mode == "sym" and E.is_sym(v) else int(v)
            syms.append(VOC[v])
        rep = rep or any(s in allsyms for s in syms) or len(set(syms)) < len(syms)
        allsyms.extend(syms)
        st.add_symbols(syms)
        check_bijection(ctx, st, f"step{k}")
        idx = st.get_sym_id_map()
        ctx.prove(all(idx.get(s) == i for s, i in seen_ids.items()), f"step{k}:earlier-ids-unchanged", None)
        ctx.prove(all(s in idx for s in syms), f"step{k}:added-symbols-present", None)
        ctx.prove(set(idx) == set(allsyms), f"step{k}:only-added-symbols-present", None)
        seen_ids = dict(idx)
    c = T.clone(st)
    check_bijection(ctx, c, "clone")
    ctx.prove(c.get_sym_id_map() == st.get_sym_id_map() and c.get_sym_table() == st.get_sym_table(), "clone:equal", None)
    c.add_symbols(["epsilon"])
    ctx.prove("epsilon" not in st.get_sym_id_map(), "clone:independent", None)
    other = T()
    other.add_symbols(VOC[::-1][:2])
    comb = T.combine_symbol_tables([st, other])
    check_bijection(ctx, comb, "combine")
    ctx.prove(set(comb.get_sym_id_map()) == set(st.get_sym_id_map()) | set(other.get_sym_id_map()), "combine:union", None)
    ctx.prove(all(comb.get_sym_id_map()[s] == i for s, i in st.get_sym_id_map().items()), "combine:first-table-ids-kept",
              None)
    if ctx.mode == "sym" and rep:
        ctx.nontrivial(True)


class _Queue:
    def __init__(self):
        self.items = []
        self.cur = None

    def put(self, x):
        self.items.append((self.cur, x))

    def empty(self):
        return not self._merged

    def get(self):
        return self._merged.pop(0)


def run_mp(ctx):
    mod = ctx.mods["hta.common.trace_symbol_table"] if ctx.mode == "sym" else \
        __import__("hta.common.trace_symbol_table", fromlist=["x"])
    lists = []
    for k, n in enumerate(ctx.sk["lists"]):
        lists.append([VOC[(k + 2 * j) % len(VOC)] for j in range(n)])
    st = mod.TraceSymbolTable()
    st.add_symbols(["omega"])
    if ctx.mode == "sym":
        q = _Queue()

        class Pool(TG._InProcPool):
            def map(self, f, items, chunksize=None):
                for i, x in enumerate(items):
                    q.cur = i
                    f(x)
                # any interleaving preserving each producer's order
                per = {}
                for p, x in q.items:
                    per.setdefault(p, []).append(x)
                merged = []
                while any(per.values()):
                    live = [p for p in sorted(per) if per[p]]
                    p = live[ctx.choose(len(live))]
                    merged.append(per[p].pop(0))
                q._merged = merged
                return [None] * len(items)

        class FakeMP:
            @staticmethod
            def Manager():
                class M:
                    def Queue(self):
                        return q
                return M()

            @staticmethod
            def get_context(kind=None):
                class C:
                    pass
                C.Pool = Pool
                return C

            @staticmethod
            def cpu_count():
                return 16
        saved = mod.mp
        mod.mp = FakeMP
        try:
            st.add_symbols_mp(lists)
        finally:
            mod.mp = saved
    else:
        st.add_symbols_mp(lists)
    check_bijection(ctx, st, "mp")
    want = {"omega"} | {s for l in lists for s in l}
    ctx.prove(set(st.get_sym_id_map()) == want, "mp:all-symbols-added", {"have": sorted(st.get_sym_id_map())})
    ctx.prove(st.get_sym_id_map()["omega"] == 0, "mp:earlier-ids-unchanged", None)
    if ctx.mode == "sym":
        ctx.nontrivial(True)


RANK_EVENTS = [
    [("aten::mm", "cpu_op"), ("cudaLaunchKernel", "cuda_runtime"), ("gemm_kernel", "kernel")],
    [("aten::add", "cpu_op"), ("aten::mm", "cpu_op"), ("ncclKernel_AllReduce", "kernel"), ("Memcpy DtoD", "gpu_memcpy")],
    [("gemm_kernel", "kernel"), ("aten::relu", "cpu_op")],
]


def run_ranks(ctx):
    n = ctx.sk["nranks"]
    events, info = {}, {}
    big = ctx.params.get("big", 0)
    for r in range(n):
        ev, inf = [], []
        rank_events = list(RANK_EVENTS[r])
        # many distinct operator names per rank: the union vocabulary then exceeds 127 symbols while each rank's
        # local vocabulary stays below (ids are downcast to the narrowest integer dtype per rank)
        rank_events += [(f"aten::op_r{r}_{k}", "cpu_op") for k in range(big)]
        for i, (name, cat) in enumerate(rank_events):
            ts, dur = f"$r{r}e{i}_ts", f"$r{r}e{i}_dur"
            if cat == "cpu_op":
                ev.append(TG.op(name, ts, dur))
            elif cat == "cuda_runtime":
                ev.append(TG.runtime(name, ts, dur, corr=10 + i))
            else:
                ev.append(TG.kernel(name, ts, dur, stream=7, corr=9 + i, cat=cat))
            inf.append((i, name, cat))
        events[r], info[r] = ctx.val(ev), inf
    ta = ctx.open(events, load=False)
    if ctx.mode == "sym":
        NDSet.ctx = ctx
        NDSet.forced = (0, 0) if big else None      # big vocabularies: one iteration order (2m orders otherwise)
        ctx.mods["hta.common.trace_parser"].__dict__["set"] = NDSet
    try:
        if ctx.params.get("steps"):
            # the ranks reach the Trace object in several parse calls (a history of parse calls on one object)
            for kind, arg in ctx.params["steps"]:
                if kind == "single":
                    ta.t.parse_single_rank(arg)
                else:
                    ta.t.parse_multiple_ranks(list(arg), use_multiprocessing=ctx.params["pool"])
        else:
            ta.t.parse_traces(use_multiprocessing=ctx.params["pool"])
    finally:
        if ctx.mode == "sym":
            NDSet.ctx = None
            NDSet.forced = None
    st = ta.t.symbol_table
    check_bijection(ctx, st, "global")
    tab = st.get_sym_table()
    for r in range(n):
        df = ta.t.get_trace(r)
        idx = [int(x) for x in ctx.cells(df["index"])]
        nm, ct = [int(x) for x in ctx.cells(df["name"])], [int(x) for x in ctx.cells(df["cat"])]
        ctx.prove(idx == [i for i, _, _ in info[r]], "ranks:rows", {"rank": r})
        for j, (i, name, cat) in enumerate(info[r]):
            if j < len(nm):
                ctx.prove(tab[nm[j]] == name and tab[ct[j]] == cat, "ranks:row-decodes-to-file-strings",
                          {"rank": r, "event": i, "got": (tab[nm[j]], tab[ct[j]])})
    if ctx.mode == "sym":
        ctx.nontrivial(True)


def _cmp_frames(ctx, a, b, label, key=None):
    """two result frames equal as sets of rows (row order of presentation tables is not part of C11)."""
    ca, cb = list(a.columns), list(b.columns)
    ctx.prove(ca == cb and len(a) == len(b), f"{label}:shape", {"a": ca, "b": cb, "la": len(a), "lb": len(b)})
    if ca != cb or len(a) != len(b):
        return
    A = {c: ctx.cells(a[c]) for c in ca}
    B = {c: ctx.cells(b[c]) for c in cb}
    n = len(a)
    keys = key or [c for c in ca if all(isinstance(x, (str, int)) and not isinstance(x, bool) for x in A[c] + B[c])
                   and c in ("rank", "kernel_type", "name", "stream", "idle_category", "correlation")]
    ra = sorted(range(n), key=lambda i: tuple(str(A[c][i]) for c in keys))
    rb = sorted(range(n), key=lambda i: tuple(str(B[c][i]) for c in keys))
    ok = True
    for i, j in zip(ra, rb):
        for c in ca:
            x, y = A[c][i], B[c][j]
            if isinstance(x, float) and x != x and isinstance(y, float) and y != y:
                continue
            if c == "stddev":
                continue
            ok = sand(ok, _eq_cell(x, y))
    ctx.prove(ok, f"{label}:equal-under-renumbering", None)


def _eq_cell(x, y):
    """equality of two result cells; rounded values (fresh solver variables) are compared through their provenance"""
    px, py = E.provenance(x), E.provenance(y)
    if px is not None and py is not None and px[3] is not None:
        if px[0] != py[0] or px[3] != py[3]:
            return False
        return sand(px[1] == py[1], px[2] == py[2])
    return x == y


def run_indep(ctx):
    from harness.common import KCLASS
    ev = [TG.op("aten::mm", "$op_ts", "$op_dur")]
    for i, ch in enumerate(ctx.sk["word"]):
        name, cat, _ = KCLASS[ch]
        ev.append(TG.runtime("cudaLaunchKernel" if cat == "kernel" else "cudaMemcpyAsync", f"$l{i}_ts", f"$l{i}_dur",
                             corr=100 + i))
        ev.append(TG.kernel(name, f"$k{i}_ts", f"$k{i}_dur", stream=7 + 13 * (i % 2), corr=100 + i, cat=cat))
    events = {0: ctx.val(ev)}
    # both worlds: the parser's set() is replaced by a set with a chosen iteration order (natively the real parser
    # module is patched the same way, so the second numbering of a counterexample is reproduced with real pandas)
    if ctx.mode == "sym":
        tp = ctx.mods["hta.common.trace_parser"]
    else:
        import hta.common.trace_parser as tp
    tp.__dict__["set"] = NDSet
    try:
        return _run_indep(ctx, events)
    finally:
        NDSet.forced = None
        if ctx.mode != "sym":
            tp.__dict__.pop("set", None)


def _run_indep(ctx, events):
    results = []
    orders = [(0, 0), (ctx.choose_recorded(ctx.params.get("nrot", 5)) + 1, ctx.choose_recorded(2))]
    tabs = []
    for n, o in enumerate(orders):
        NDSet.forced = o
        try:
            if ctx.mode != "sym":
                import os
                base = getattr(ctx, "_base_outdir", None) or ctx.outdir
                ctx._base_outdir = base
                ctx.outdir = os.path.join(base, f"numbering{n}")
            ta = ctx.open(events)
        finally:
            NDSet.forced = None
        tabs.append(list(ta.t.symbol_table.get_sym_table()))
        if __import__("os").environ.get("VERIF_DEBUG"):
            print("DEBUG order", o, tabs[-1], file=__import__("sys").stderr)
        kt, kb = ta.get_gpu_kernel_breakdown(visualize=False, num_kernels=2, include_memory_kernels=True)
        ql = ta.get_queue_length_time_series([0])
        ls = ta.get_cuda_kernel_launch_stats([0], visualize=False)
        idle, _ = ta.get_idle_time_breakdown([0], visualize=False, consecutive_kernel_delay=5)
        results.append({"temporal": ta.get_temporal_breakdown(visualize=False),
                        "overlap": ta.get_comm_comp_overlap(visualize=False), "kernel-types": kt, "kernels": kb,
                        "queue": ql.get(0), "launch": ls.get(0), "idle": idle})
    ctx.prove(sorted(tabs[0]) == sorted(tabs[1]), "indep:same-vocabulary", None)
    for k in results[0]:
        a, b = results[0][k], results[1][k]
        if a is None or b is None:
            ctx.prove(a is None and b is None, f"indep:{k}:presence", None)
            continue
        _cmp_frames(ctx, a.reset_index() if k == "queue" else a, b.reset_index() if k == "queue" else b, f"indep:{k}")
    if ctx.mode == "sym" and tabs[0] != tabs[1]:
        ctx.nontrivial(True)


def run_df(ctx):
    """create_from_df / encode_df / decode_df on a decoded frame whose strings are chosen by the solver"""
    if ctx.mode == "sym":
        from symx import sympd as pd
        T = ctx.mods["hta.common.trace_symbol_table"].TraceSymbolTable
    else:
        import pandas as pd
        from hta.common.trace_symbol_table import TraceSymbolTable as T
    names, cats = [], []
    for i in range(ctx.sk["rows"]):
        for lst, tag in ((names, "n"), (cats, "c")):
            ctx.sk.setdefault("vars", {})[f"{tag}{i}"] = ["int", 0, len(VOC) - 1]
            v = ctx.val(f"${tag}{i}")
            v = E.cur().concretize(v) if ctx.mode == "sym" and E.is_sym(v) else int(v)
            lst.append(VOC[v] if tag == "n" else "cat_" + VOC[v])
    df = pd.DataFrame({"name": list(names), "cat": list(cats), "dur": list(range(len(names)))})
    st = T.create_from_df(df)
    check_bijection(ctx, st, "df")
    ctx.prove(set(st.get_sym_id_map()) == set(names) | set(cats), "df:table-holds-exactly-the-frame's-strings", None)
    st.encode_df(df)
    enc_n, enc_c = [int(x) for x in ctx.cells(df["name"])], [int(x) for x in ctx.cells(df["cat"])]
    tab = st.get_sym_table()
    ctx.prove([tab[i] for i in enc_n] == names and [tab[i] for i in enc_c] == cats, "df:encoded-ids-decode-to-the-strings",
              {"names": names})
    st.decode_df(df)
    ctx.prove([str(x) for x in ctx.cells(df["s_name"])] == names and [str(x) for x in ctx.cells(df["s_cat"])] == cats,
              "df:decode_df-restores-the-strings", None)
    if ctx.mode == "sym" and len(set(names)) < len(names):
        ctx.nontrivial(True)


def run(ctx):
    fam = ctx.sk["fam"]
    if fam == "df":
        return run_df(ctx)
    if fam == "hist":
        run_hist(ctx)
    elif fam == "mp":
        run_mp(ctx)
    elif fam == "ranks":
        run_ranks(ctx)
    else:
        run_indep(ctx)


def signature(label, sk, detail):
    return f"{ID}/{label}"
