"""C05 — kernel breakdown partitions busy time by type and conserves per-kernel time."""
from itertools import combinations

from harness.common import precalls, KCLASS, close, multisets, sand
from oracles.intervals import exactly_len, union_len
from symx import tracegen as TG
from symx.engine import smax, smin

ID = "C05"
MODULES = ["hta.trace_analysis"]
MUST_NOT_RAISE = True
SORT_SKIP_FUNCS = ("get_gpu_kernel_breakdown",)  # final presentation sorts; rows are matched by label
TIE_MAX_RUN = 2
BUDGET_S = {"quick": 480, "thorough": 1200}
ORDER = ["COMPUTATION", "COMMUNICATION", "MEMORY"]
CONFIGS_Q = [(1, 0.8, False), (1, 1.0, True), (2, 0.5, True), (2, 0.8, False)]
CONFIGS_T = [(k, q, m) for k in (1, 2, 3) for q in (0.5, 0.8, 1.0) for m in (False, True)]
BOUNDS = {
    "quick": "user-annotation breakdown (same aggregator, allowlist on/off, CPU and GPU annotations) on 1..3 annotations "
             "of 3 names; kernel breakdown: 1 rank x 1..3 device activities over 2 computation names, 2 communication names, 1 memory name (all "
             "multisets), 4 (num_kernels, duration_ratio, include_memory) configurations; 2 ranks x 2 activities for "
             "2 configurations; ts,dur symbolic Int",
    "thorough": "1 rank x 1..4 activities (all multisets over 5 names) x 18 configurations; 2 ranks x 2 activities; "
                "plus duration_ratio as a symbolic real in (0,1] for 3-activity skeletons",
}
EXPLANATION = ("Real TraceAnalysis.get_gpu_kernel_breakdown (_get_gpu_kernel_type_time, _aggr_gpu_kernel_time, "
               "merge_kernel_intervals). Type table: each combination's time = measure of 'exactly this combination "
               "running' (Mobius inversion of union measures) summed over ranks, no other rows with non-zero time, "
               "percentages = round(100*sum/total,1). Per-kernel table, per rank and type: sums (with 'others') add up to "
               "the type's total duration; <= num_kernels named rows; a named row's sum/min/max/mean are those of the "
               "kernels bearing that name. Non-trivial path = admits two types overlapping for a positive time, or "
               "(single-type skeletons) positive busy time.")
ASSUMPTIONS = ["integer timestamps in [0,2^40]", "round(x,1) modelled as within 0.05", "std column unconstrained",
               "JSON reading stubbed"]
STUBS = ["hta.common.trace_parser.parse_trace_dict", "Trace._validate_trace_files", "plotly", "logging"]


ANNO = {"f": "fwd_pass", "b": "bwd_pass", "o": "optimizer_step"}


def anno_skeletons(tier):
    out = []
    words = ["f", "fb", "ff", "fbo", "ffb"] if tier == "quick" else ["f", "fb", "ff", "fbo", "ffb", "fbbo", "ffbo", "fboo"]
    for w in words:
        for k in (1, 2):
            for allow in (None, ["bwd"]):
                if tier == "quick" and len(w) == 3 and k == 2 and allow is None:
                    continue
                for gpu in ((True,) if tier == "quick" and len(w) > 1 else (True, False)):
                    out.append({"id": f"anno-{w}-k{k}-allow{0 if allow is None else 1}-gpu{int(gpu)}", "fam": "anno", "word": w,
                                "params": {"num_kernels": k, "duration_ratio": 0.8 if k == 1 else 1.0, "allow": allow,
                                           "gpu": gpu}})
    return out


def skeletons(tier):
    return kernel_skeletons(tier) + anno_skeletons(tier)


def kernel_skeletons(tier):
    out = []
    if tier == "quick":
        for n in range(1, 3):
            for w in multisets("CcNnM", n):
                for (k, q, m) in CONFIGS_Q:
                    out.append({"id": f"r1-{w}-k{k}-q{q}-m{int(m)}", "ranks": {"0": w},
                                "params": {"num_kernels": k, "duration_ratio": q, "mem": m}})
        for w, (k, q, m) in [("CCc", (1, 0.8, False)), ("Ccc", (1, 1.0, True)), ("CNM", (2, 0.5, True)),
                             ("NnM", (1, 0.8, True)), ("CcN", (1, 0.5, False))]:
            out.append({"id": f"r1-{w}-k{k}-q{q}-m{int(m)}", "ranks": {"0": w},
                        "params": {"num_kernels": k, "duration_ratio": q, "mem": m}})
        # "every trace": a device activity on stream 0 (legacy default stream) is a device activity
        for w in ("C", "CN", "MC"):
            out.append({"id": f"r1-{w}-stream0", "ranks": {"0": w},
                        "params": {"num_kernels": 2, "duration_ratio": 1.0, "mem": True, "stream0": True}})
        for pre in ("temporal", "overlap", "idle"):
            out.append({"id": f"r1-CN-after-{pre}", "ranks": {"0": "CN"},
                        "params": {"num_kernels": 2, "duration_ratio": 1.0, "mem": True, "pre": [pre]}})
        for (k, q, m) in CONFIGS_Q[1:2]:
            out.append({"id": f"r2-Cc-N-k{k}-q{q}", "ranks": {"0": "Cc", "1": "N"},
                        "params": {"num_kernels": k, "duration_ratio": q, "mem": m}})
    else:
        for n in range(1, 5):
            for w in multisets("CcNnM", n):
                cfgs = CONFIGS_T if n <= 3 else CONFIGS_Q
                for (k, q, m) in cfgs:
                    out.append({"id": f"r1-{w}-k{k}-q{q}-m{int(m)}", "ranks": {"0": w},
                                "params": {"num_kernels": k, "duration_ratio": q, "mem": m}})
        for w in multisets("CcNnM", 3):
            out.append({"id": f"r1-{w}-k1-qsym", "ranks": {"0": w},
                        "params": {"num_kernels": 1, "duration_ratio": "$ratio", "mem": True},
                        "vars": {"ratio": ["real", 0, 1]}})
        for w in multisets("CNM", 2) + ["C", "N", "M"]:
            out.append({"id": f"r1-{w}-stream0", "ranks": {"0": w},
                        "params": {"num_kernels": 2, "duration_ratio": 1.0, "mem": True, "stream0": True}})
        for (k, q, m) in CONFIGS_Q:
            for a, b in [("Cc", "CN"), ("CM", "cN"), ("cc", "Cn")]:
                out.append({"id": f"r2-{a}-{b}-k{k}-q{q}", "ranks": {"0": a, "1": b},
                            "params": {"num_kernels": k, "duration_ratio": q, "mem": m}})
    return out


def build(sk):
    ranks, kinfo = {}, {}
    for r, w in sk["ranks"].items():
        ev = [TG.op("aten::mm", f"$r{r}_op_ts", f"$r{r}_op_dur")]
        ks = []
        for i, ch in enumerate(w):
            name, cat, cls = KCLASS[ch]
            ts, dur = f"$r{r}_k{i}_ts", f"$r{r}_k{i}_dur"
            ev.append(TG.kernel(name, ts, dur, stream=(0 if (sk.get('params', {}).get('stream0') and i == 0) else 7 + 13 * (i % 2)), corr=100 + i, cat=cat))
            ks.append((cls, name, ts, dur))
        ranks[int(r)] = ev
        kinfo[int(r)] = ks
    return ranks, kinfo


def label_of(combo):
    return " overlapping ".join(combo)


def run_anno(ctx):
    """the user-annotation breakdown shares _aggr_gpu_kernel_time (incl. the allowlist)"""
    from symx.engine import smax, smin
    sk, P = ctx.sk, ctx.params
    cat = "gpu_user_annotation" if P["gpu"] else "user_annotation"
    ev = [TG.op("aten::mm", "$op_ts", "$op_dur")]
    A = []
    for i, ch in enumerate(sk["word"]):
        if P["gpu"]:
            ev.append({"ph": "X", "cat": cat, "name": ANNO[ch], "pid": 0, "tid": 7, "ts": f"$a{i}_ts", "dur": f"$a{i}_dur",
                       "args": {"External id": 5 + i}})
        else:
            ev.append(TG.op(ANNO[ch], f"$a{i}_ts", f"$a{i}_dur", cat=cat, tid=300 + i))
        A.append((ANNO[ch], f"$a{i}_dur"))
    events = {0: ctx.val(ev)}
    A = [(n, ctx.val(d)) for n, d in A]
    ta = ctx.open(events)
    df = ta.get_gpu_user_annotation_breakdown(use_gpu_annotation=P["gpu"], visualize=False,
                                              duration_ratio=P["duration_ratio"], num_kernels=P["num_kernels"],
                                              allowlist_patterns=P["allow"])
    ctx.prove(df is not None, "annotation-table-returned", None)
    if df is None:
        return
    names = [str(x) for x in ctx.cells(df["name"])]
    col = {c: ctx.cells(df[c]) for c in ["sum (us)", "max (us)", "min (us)", "mean (us)"]}
    ctx.prove(len(set(names)) == len(names) and all(int(r) == 0 for r in ctx.cells(df["rank"])), "anno-rows-unique", None)
    tot = 0
    for _, d in A:
        tot = tot + d
    rep = 0
    for v in col["sum (us)"]:
        rep = rep + v
    ctx.prove(rep == tot, "anno-sums-conserved", None)
    allowed = {n for n, _ in A if P["allow"] and any(p in n for p in P["allow"])}
    named = [j for j, n in enumerate(names) if n != "others"]
    ctx.prove(len([j for j in named if names[j] not in allowed]) <= P["num_kernels"], "anno-named-rows-le-num-kernels",
              {"names": names})
    distinct = {n for n, _ in A}
    if len(distinct) > P["num_kernels"]:
        ctx.prove(allowed <= set(names), "allowlisted-names-keep-their-row", {"names": names, "allowed": sorted(allowed)})
    for j in named:
        ds = [d for n, d in A if n == names[j]]
        ctx.prove(len(ds) > 0, "anno-named-row-exists", {"name": names[j]})
        if not ds:
            continue
        s0, mx, mn = 0, ds[0], ds[0]
        for x in ds:
            s0, mx, mn = s0 + x, smax(mx, x), smin(mn, x)
        ctx.prove(sand(col["sum (us)"][j] == s0, col["max (us)"][j] == mx, col["min (us)"][j] == mn), "anno-named-row-stats",
                  {"name": names[j]})
        ctx.prove(col["mean (us)"][j] * len(ds) == s0 if ctx.mode == "sym" else abs(col["mean (us)"][j] * len(ds) - s0)
                  <= 1e-6 * len(ds), "anno-named-row-mean", {"name": names[j]})
    if ctx.mode == "sym":
        ctx.nontrivial(True)


def run(ctx):
    if ctx.sk.get("fam") == "anno":
        return run_anno(ctx)
    ranks, kinfo = build(ctx.sk)
    events = {r: ctx.val(ev) for r, ev in ranks.items()}
    P = ctx.params
    ratio = ctx.val(P["duration_ratio"])
    if ctx.mode == "sym" and not isinstance(ratio, float):
        ctx.assume(ratio > 0)
    nk, mem = P["num_kernels"], P["mem"]
    analysed = ORDER[:3] if mem else ORDER[:2]
    ta = ctx.open(events)
    precalls(ctx, ta)
    type_df, kern_df = ta.get_gpu_kernel_breakdown(visualize=False, duration_ratio=ratio, num_kernels=nk,
                                                   include_memory_kernels=mem)
    # ---- type table ------------------------------------------------------------------
    labels = [str(x) for x in ctx.cells(type_df["kernel_type"])]
    sums = ctx.cells(type_df["sum"])
    pcts = ctx.cells(type_df["percentage"])
    ctx.prove(len(set(labels)) == len(labels), "type-rows-unique", {"labels": labels})
    def oracle():
        want, anyov = {}, False
        for k in range(1, len(analysed) + 1):
            for combo in combinations(range(len(analysed)), k):
                t = 0
                for r, ks in kinfo.items():
                    groups = [[(ctx.val(ts), ctx.val(ts) + ctx.val(d)) for c, _, ts, d in ks if c == a]
                              for a in analysed]
                    if all(groups[i] for i in combo):
                        t = t + exactly_len(groups, combo)
                want[label_of([analysed[i] for i in combo])] = t
                if k >= 2 and ctx.mode == "sym" and not isinstance(t, int):
                    anyov = (anyov | (t > 0)) if anyov is not False else (t > 0)
        busy = 0
        for r, ks in kinfo.items():
            busy = busy + union_len([(ctx.val(ts), ctx.val(ts) + ctx.val(d)) for c, _, ts, d in ks if c in analysed])
        return want, anyov, busy

    want, anyov, busy = ctx.cached("type-oracle", oracle)
    for lab, s in zip(labels, sums):
        ctx.prove(lab in want, "type-label-known", {"label": lab})
        if lab in want:
            ctx.prove(s == want[lab], "type-time", {"combo": lab})
    for lab, t in want.items():
        if lab not in labels:
            ctx.prove(t == 0, "type-row-missing", {"combo": lab})
    tot_rep = 0
    for s in sums:
        tot_rep = tot_rep + s
    ctx.prove(tot_rep == busy, "type-rows-sum-to-busy", None)
    for lab, s, p in zip(labels, sums, pcts):
        if ctx.mode == "sym":
            if isinstance(p, float) and p != p:
                continue
            ctx.prove_ratio(p, want.get(lab, 0), busy, "type-pct", {"combo": lab}, scale=100, places=1)
        elif busy > 0:
            w = 100.0 * want.get(lab, 0) / busy
            ctx.prove(abs(p - w) <= 0.05 + 1e-9, "type-pct", {"combo": lab, "got": p, "want": w})
    # ---- per-kernel table ----------------------------------------------------------------
    kn = [str(x) for x in ctx.cells(kern_df["name"])]
    kt = [str(x) for x in ctx.cells(kern_df["kernel_type"])]
    kr = [int(x) for x in ctx.cells(kern_df["rank"])]
    col = {c: ctx.cells(kern_df[c]) for c in ["sum (us)", "max (us)", "min (us)", "mean (us)"]}
    for r, ks in kinfo.items():
        for a in analysed:
            mine = [(n, ctx.val(d)) for c, n, _, d in ks if c == a]
            rows = [j for j in range(len(kn)) if kr[j] == r and kt[j] == a]
            d = {"rank": r, "type": a}
            tot = 0
            for _, dd in mine:
                tot = tot + dd
            rep = 0
            for j in rows:
                rep = rep + col["sum (us)"][j]
            ctx.prove(rep == tot, "kernel-sums-conserved", d)
            named = [j for j in rows if kn[j] != "others"]
            ctx.prove(len(named) <= nk, "named-rows-le-num-kernels", dict(d, named=len(named)))
            ctx.prove(len({kn[j] for j in rows}) == len(rows), "kernel-rows-unique", d)
            for j in named:
                ds = [dd for n, dd in mine if n == kn[j]]
                dj = dict(d, name=kn[j])
                ctx.prove(len(ds) > 0, "named-row-exists-in-trace", dj)
                if not ds:
                    continue
                s = 0
                mx, mn = ds[0], ds[0]
                for x in ds:
                    s = s + x
                    mx, mn = smax(mx, x), smin(mn, x)
                ctx.prove(col["sum (us)"][j] == s, "named-row-sum", dj)
                ctx.prove(col["max (us)"][j] == mx, "named-row-max", dj)
                ctx.prove(col["min (us)"][j] == mn, "named-row-min", dj)
                ctx.prove(close(col["mean (us)"][j] * len(ds), s, 1e-6 * len(ds)) if ctx.mode == "native"
                          else col["mean (us)"][j] * len(ds) == s, "named-row-mean", dj)
    if ctx.mode == "sym":
        ctx.nontrivial(anyov if anyov is not False else busy > 0)


def signature(label, sk, detail):
    return f"{ID}/{label}"
