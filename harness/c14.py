"""C14 — queue-length and memory-bandwidth counters are exact step functions."""
import gzip
import itertools
import json

from harness.common import precalls, assume_nested_or_disjoint, sand, sor, snot
from symx import tracegen as TG
from symx.engine import site, smax

ID = "C14"
MODULES = ["hta.trace_analysis"]
MUST_NOT_RAISE = True
REPLICABLE = True          # tie-order witnesses are replayed natively on a 4-fold replicated trace as well
BUDGET_S = {"quick": 420, "thorough": 1200}
S1, S2 = 7, 20
COPY = {"D": ("Memcpy DtoD (Device -> Device)", "gpu_memcpy", "Memcpy DtoD"),
        "H": ("Memcpy HtoD (Pageable -> Device)", "gpu_memcpy", "Memcpy HtoD"),
        "S": ("Memset (Device)", "gpu_memset", "Memset"),
        # a second kernel name of the same copy type (the type is the first 11 characters of the name)
        "h": ("Memcpy HtoD (Pinned -> Device)", "gpu_memcpy", "Memcpy HtoD")}
BOUNDS = {
    "quick": "queue family: 1..3 linked launch/kernel pairs on <= 2 streams (+ optionally one unlinked launch and one "
             "unlinked kernel), symbolic Int ts (all equalities reachable), adversarial sort ties; bandwidth family: "
             "1..2 memory copies over 3 copy types, symbolic Int ts/dur (dur may be 0) and symbolic real bandwidth >= 0; "
             "counter events checked on every path",
    "thorough": "queue family: all words up to 3 pairs (adversarial tie orders) and 4 of the 8 words of 4 pairs (stable ties); bandwidth family: all words up to 2 copies and 4 of the 10 words of 3 copies; 2-rank request",
}
EXPLANATION = ("Real TraceAnalysis.get_queue_length_time_series / get_memory_bw_time_series / "
               "generate_trace_with_counters (TraceCounters._get_queue_length_time_series_for_rank, "
               "_get_memory_bw_time_series_for_rank, Trace.convert_time_series_to_events) after real loading. "
               "Obligations: series rows are exactly the linked launches and kernels; after the last row of an instant "
               "the value = #launches(ts<=t) - #kernel starts(ts<=t) of the stream; never negative when kernel.ts >= "
               "launch.ts; last value 0; bandwidth after the last row of an instant = sum of bandwidths of the copies "
               "active at t (zero-length copy = one unit), >= 0; the written file = source events (unchanged, same "
               "order) followed by one counter event per series row at ts + min_ts. Non-trivial path = admits a queue "
               "length of 2 (or two copies active at once).")
ASSUMPTIONS = ["WF host thread, unique correlation ids per side (kernel.ts >= launch.ts is NOT assumed: it is the "
               "hypothesis of the never-negative clause only)", "integer ts/dur in [0,2^40], "
               "bandwidth an exact non-negative real (float rounding outside the claim)",
               "write_raw_trace and JSON reading stubbed in the symbolic run; natively the written gzip file is read back"]
STUBS = ["hta.common.trace_parser.parse_trace_dict", "Trace._validate_trace_files", "Trace.write_raw_trace", "plotly",
         "logging"]
TIE_MAX_RUN = 3


def _read_json(path):
    raw = open(path, "rb").read()
    return json.loads(gzip.decompress(raw) if raw[:2] == b"\x1f\x8b" else raw)


def skeletons(tier):
    out = []
    maxn = 3 if tier == "quick" else 4
    for n in range(1, maxn + 1):
        for w in ["a" + "".join(x) for x in itertools.product("ab", repeat=n - 1)]:
            extras = [(False, False)] if n == maxn else [(False, False), (True, True)]
            for ul, uk in extras:
                # full tie permutations up to 2 pairs (quick) / 3 pairs (thorough); beyond: stable ties
                tm = "adversarial" if n <= (2 if tier == "quick" else 3) else "stable"
                if tier == "quick" and n == 3 and w not in ("aaa", "aab"):
                    continue
                if n == 4 and w not in ("aaaa", "aabb", "abab", "abba"):      # sized to the thorough budget
                    continue
                out.append({"id": f"q-{w}-ul{int(ul)}-uk{int(uk)}", "fam": "queue", "word": w,
                            "params": {"ul": ul, "uk": uk, "nranks": 1, "tie_mode": tm}})
    maxm = 2 if tier == "quick" else 3
    for m in range(1, maxm + 1):
        for w in itertools.combinations_with_replacement("DHS", m):
            if m == 3 and "".join(w) not in ("DDD", "DHS", "HHS", "SSS"):     # sized to the thorough budget
                continue
            out.append({"id": "bw-" + "".join(w), "fam": "bw", "word": "".join(w), "params": {"nranks": 1},
                        "vars": {f"c{i}_bw": ["real", 0, None] for i in range(m)}})
    for w in (["Hh"] if tier == "quick" else ["Hh", "HhD", "HHh"]):
        out.append({"id": "bw-" + w, "fam": "bw", "word": w, "params": {"nranks": 1},
                    "vars": {f"c{i}_bw": ["real", 0, None] for i in range(len(w))}})
    for pre in ("launch", "idle", "temporal"):
        out.append({"id": f"q-aa-after-{pre}", "fam": "queue", "word": "aa",
                    "params": {"ul": False, "uk": False, "nranks": 1, "tie_mode": "stable", "pre": [pre]}})
    if tier == "thorough":
        out.append({"id": "q-ab-r2", "fam": "queue", "word": "ab", "params": {"ul": False, "uk": False, "nranks": 2}})
    return out


def build(sk, rep=1):
    """events of one rank; rep > 1 replicates every pair/copy (same symbolic times, fresh correlation ids)."""
    ev = [TG.op("aten::mm", "$op_ts", "$op_dur")]
    pairs, copies, host_spans = [], [], [("$op_ts", "$op_dur")]
    corr = 100
    if sk["fam"] == "queue":
        for c in range(rep):
            for i, ch in enumerate(sk["word"]):
                st = S1 if ch == "a" else S2
                lid = len(ev)
                ev.append(TG.runtime("cudaLaunchKernel" if i % 2 == 0 else "cudaMemcpyAsync", f"$l{i}_ts", f"$l{i}_dur",
                                     corr=corr))
                kid = len(ev)
                ev.append(TG.kernel("gemm_kernel", f"$k{i}_ts", f"$k{i}_dur", stream=st, corr=corr))
                corr += 1
                pairs.append({"lid": lid, "kid": kid, "stream": st, "lts": f"$l{i}_ts", "ldur": f"$l{i}_dur",
                              "kts": f"$k{i}_ts"})
                if c == 0:
                    host_spans.append((f"$l{i}_ts", f"$l{i}_dur"))
        if sk["params"]["ul"]:
            ev.append(TG.runtime("cudaLaunchKernel", "$ul_ts", "$ul_dur", corr=900))
            host_spans.append(("$ul_ts", "$ul_dur"))
        if sk["params"]["uk"]:
            ev.append(TG.kernel("gemm_kernel", "$uk_ts", "$uk_dur", stream=S1, corr=901))
    else:
        for c in range(rep):
            for i, ch in enumerate(sk["word"]):
                name, cat, typ = COPY[ch]
                kid = len(ev)
                ev.append(TG.kernel(name, f"$c{i}_ts", f"$c{i}_dur", stream=S1 + i, corr=corr, cat=cat,
                                    **{"memory bandwidth (GB/s)": f"$c{i}_bw", "bytes": 1024}))
                corr += 1
                copies.append({"kid": kid, "type": typ, "ts": f"$c{i}_ts", "dur": f"$c{i}_dur", "bw": f"$c{i}_bw"})
    return ev, pairs, copies, host_spans


def run(ctx):
    sk = ctx.sk
    rep = ctx.params.get("replicate", 1)
    ev, pairs, copies, host_spans = build(sk, rep)
    nranks = ctx.params.get("nranks", 1)
    events = {r: ctx.val(ev) for r in range(nranks)}
    P = [{**p, "lts": ctx.val(p["lts"]), "ldur": ctx.val(p["ldur"]), "kts": ctx.val(p["kts"])} for p in pairs]
    C = [{**c, "ts": ctx.val(c["ts"]), "dur": ctx.val(c["dur"]), "bw": ctx.val(c["bw"])} for c in copies]
    assume_nested_or_disjoint(ctx, [(ctx.val(a), ctx.val(a) + ctx.val(b)) for a, b in host_spans])
    # the value clause holds for any interleaving; "never negative" is promised only when no activity starts before
    # its launch call
    causal = sand(*[p["kts"] >= p["lts"] for p in P]) if P else True
    ta = ctx.open(events)
    ranks = list(range(nranks))
    min_ts = ta.t.min_ts
    written = {}
    if ctx.mode == "sym":
        ta.t.write_raw_trace = lambda f, content: written.__setitem__(f, content)
    precalls(ctx, ta)
    ql = ta.get_queue_length_time_series(ranks)
    bw = ta.get_memory_bw_time_series(ranks)
    nontriv = False
    for r in ranks:
        # ---- queue length --------------------------------------------------------------------
        if P:
            ctx.prove(r in ql, "queue-series-present", {"rank": r})
            if r not in ql:
                continue
            df = ql[r]
            idx = [int(x) for x in ctx.cells(df.index)]
            ts, st, q = ctx.cells(df["ts"]), [int(x) for x in ctx.cells(df["stream"])], ctx.cells(df["queue_length"])
            want_ids = sorted([p["lid"] for p in P] + [p["kid"] for p in P])
            ctx.prove(sorted(idx) == want_ids, "queue-rows-are-the-linked-events", {"rows": sorted(idx)})
            byid = {}
            for p in P:
                byid[p["lid"]] = (p["lts"] - min_ts, p["stream"])
                byid[p["kid"]] = (p["kts"] - min_ts, p["stream"])
            for j, i in enumerate(idx):
                if i in byid:
                    ctx.prove(sand(ts[j] == byid[i][0], st[j] == byid[i][1]), "queue-row-fields", {"event": i})
            for s in sorted(set(st)):
                rows = [j for j in range(len(idx)) if st[j] == s]
                mine = [p for p in P if p["stream"] == s]
                for a, j in enumerate(rows):
                    t = ts[j]
                    cnt = 0
                    for p in mine:
                        cnt = cnt + site(p["lts"] - min_ts <= t, 1, 0) - site(p["kts"] - min_ts <= t, 1, 0)
                    later_same = sor(*[ts[k] == t for k in rows[a + 1:]]) if rows[a + 1:] else False
                    ctx.prove(sor(later_same, q[j] == cnt), "queue-value-after-instant", {"stream": s, "row": a})
                    ctx.prove(sor(snot(causal), q[j] >= 0), "queue-never-negative", {"stream": s, "row": a})
                    if ctx.mode == "sym":
                        nontriv = sor(nontriv, q[j] >= 2)
                ctx.prove(q[rows[-1]] == 0, "queue-ends-at-zero", {"stream": s})
        else:
            ctx.prove(r not in ql, "no-linked-pairs-no-series", {"rank": r})
        # ---- memory bandwidth ----------------------------------------------------------------
        if C:
            ctx.prove(r in bw, "bw-series-present", {"rank": r})
            if r not in bw:
                continue
            df = bw[r]
            ts, nm, v = ctx.cells(df["ts"]), [str(x) for x in ctx.cells(df["name"])], ctx.cells(df["memory_bw_gbps"])
            ctx.prove(len(ts) == 2 * len(C), "bw-two-rows-per-copy", {"rows": len(ts)})
            for typ in sorted(set(nm)):
                rows = [j for j in range(len(ts)) if nm[j] == typ]
                mine = [c for c in C if c["type"] == typ]
                ctx.prove(len(rows) == 2 * len(mine), "bw-rows-per-type", {"type": typ})
                for a, j in enumerate(rows):
                    t = ts[j]
                    act = 0
                    for c in mine:
                        s0 = c["ts"] - min_ts
                        e0 = s0 + smax(c["dur"], 1)
                        act = act + site(sand(s0 <= t, t < e0), c["bw"], 0)
                    later_same = sor(*[ts[k] == t for k in rows[a + 1:]]) if rows[a + 1:] else False
                    if ctx.mode == "sym":
                        ctx.prove(sor(later_same, v[j] == act), "bw-value-after-instant", {"type": typ, "row": a})
                        ctx.prove(v[j] >= 0, "bw-never-negative", {"type": typ, "row": a})
                    else:
                        tol = 1e-9 * (1 + sum(abs(c["bw"]) for c in mine))
                        ctx.prove(bool(later_same) or abs(v[j] - act) <= tol, "bw-value-after-instant",
                                  {"type": typ, "row": a, "got": v[j], "want": act})
                        ctx.prove(v[j] >= -tol, "bw-never-negative", {"type": typ, "row": a})
                if ctx.mode == "sym" and len(mine) >= 2:
                    nontriv = sor(nontriv, sand(mine[0]["ts"] < mine[1]["ts"] + smax(mine[1]["dur"], 1),
                                                mine[1]["ts"] < mine[0]["ts"] + smax(mine[0]["dur"], 1)))
        else:
            ctx.prove(r not in bw, "no-copies-no-bw-series", {"rank": r})
    # ---- counter events of the augmented file ----------------------------------------------
    exp = {}
    for r in ranks:
        rows = []
        if r in ql:
            df = ql[r]
            for t, pid, s, qv in zip(ctx.cells(df["ts"]), ctx.cells(df["pid"]), ctx.cells(df["stream"]),
                                     ctx.cells(df["queue_length"])):
                rows.append(("Queue Length", "Queue Length", t + min_ts, pid, int(s), qv))
        if r in bw:
            df = bw[r]
            for t, pid, n, val in zip(ctx.cells(df["ts"]), ctx.cells(df["pid"]), ctx.cells(df["name"]),
                                      ctx.cells(df["memory_bw_gbps"])):
                rows.append((str(n), "Memcpy BW", t + min_ts, pid, None, val))
        exp[r] = rows
    ta.generate_trace_with_counters(ranks=ranks)
    for r in ranks:
        src = events[r]
        if not exp[r]:
            continue
        if ctx.mode == "sym":
            key = [k for k in written if f"rank{r}_with_counters" in k]
            ctx.prove(len(key) == 1, "counter-file-written", {"rank": r, "files": list(written)})
            if not key:
                continue
            out = written[key[0]]["traceEvents"]
        else:
            import os
            fn = os.path.join(ctx.outdir, f"rank{r}_with_counters.json")
            ctx.prove(os.path.exists(fn), "counter-file-written", {"rank": r})
            if not os.path.exists(fn):
                continue
            out = _read_json(fn)["traceEvents"]
        ctx.prove(len(out) == len(src) + len(exp[r]), "counter-file-length", {"rank": r, "len": len(out)})
        same = True
        for a, b in zip(src, out[:len(src)]):
            same = sand(same, _same_event(a, b))
        ctx.prove(same, "source-events-preserved-in-order", {"rank": r})
        # counter events: same multiset of (name, counter, ts, pid, id) as the series rows, and -- because a
        # second computation may order simultaneous rows differently -- the step-function obligations again
        extra = out[len(src):]
        shape_ok = True
        for e in extra:
            shape_ok = sand(shape_ok, e.get("ph") == "C", len(e.get("args", {})) == 1)
        ctx.prove(shape_ok, "counter-event-shape", {"rank": r})
        if shape_ok is False:
            continue
        for (name, cname, t, pid, sid, val) in exp[r]:
            n_exp, n_got = 0, 0
            for (name2, cname2, t2, pid2, sid2, _) in exp[r]:
                if (name2, cname2, sid2) == (name, cname, sid):
                    n_exp = n_exp + site(sand(t2 == t, pid2 == pid), 1, 0)
            for e in extra:
                if e.get("name") == name and list(e["args"].keys()) == [cname] and e.get("id") == sid:
                    n_got = n_got + site(sand(e.get("ts") == t, e.get("pid") == pid), 1, 0)
            ctx.prove(n_exp == n_got, "counter-events-match-series-rows", {"rank": r, "name": name})
        for s_ in sorted({p["stream"] for p in P}):
            evs = [e for e in extra if e.get("name") == "Queue Length" and e.get("id") == s_]
            mine = [p for p in P if p["stream"] == s_]
            for a_, e in enumerate(evs):
                t = e["ts"]
                cnt = 0
                for p in mine:
                    cnt = cnt + site(p["lts"] <= t, 1, 0) - site(p["kts"] <= t, 1, 0)
                later_same = sor(*[k["ts"] == t for k in evs[a_ + 1:]]) if evs[a_ + 1:] else False
                ctx.prove(sor(later_same, e["args"]["Queue Length"] == cnt), "counter-queue-value-at-unshifted-ts",
                          {"stream": s_, "row": a_})
        for typ in sorted({c["type"] for c in C}):
            evs = [e for e in extra if e.get("name") == typ and "Memcpy BW" in e["args"]]
            mine = [c for c in C if c["type"] == typ]
            for a_, e in enumerate(evs):
                t = e["ts"]
                act = 0
                for c in mine:
                    act = act + site(sand(c["ts"] <= t, t < c["ts"] + smax(c["dur"], 1)), c["bw"], 0)
                later_same = sor(*[k["ts"] == t for k in evs[a_ + 1:]]) if evs[a_ + 1:] else False
                got = e["args"]["Memcpy BW"]
                if ctx.mode == "sym":
                    ctx.prove(sor(later_same, got == act), "counter-bw-value-at-unshifted-ts", {"type": typ, "row": a_})
                else:
                    ctx.prove(bool(later_same) or abs(got - act) <= 1e-9 * (1 + sum(abs(c["bw"]) for c in mine)),
                              "counter-bw-value-at-unshifted-ts", {"type": typ, "row": a_})
    if ctx.mode == "sym":
        ctx.nontrivial(nontriv if (len(P) >= 2 or len(C) >= 2) else True)


def _same_event(a, b):
    if isinstance(a, dict):
        if not isinstance(b, dict) or list(a.keys()) != list(b.keys()):
            return False
        ok = True
        for k in a:
            ok = sand(ok, _same_event(a[k], b[k]))
        return ok
    if isinstance(a, list):
        return isinstance(b, list) and len(a) == len(b) and sand(*[_same_event(x, y) for x, y in zip(a, b)])
    return a == b


def signature(label, sk, detail):
    return f"{ID}/{label}"
