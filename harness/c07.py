"""C07 — communication/computation overlap is the exact time ratio."""
from harness.common import precalls, KCLASS, close, multisets, provenance, sand
from oracles.intervals import both_len, union_len
from symx import tracegen as TG

ID = "C07"
MODULES = ["hta.trace_analysis"]
MUST_NOT_RAISE = True
BUDGET_S = {"quick": 420, "thorough": 1200}
BOUNDS = {
    "quick": "1 rank; 1..3 device activities, every class assignment over {computation, communication, memory} "
             "with >= 1 communication kernel; ts,dur symbolic Int in [0,2^40]; one host operator with symbolic span",
    "thorough": "1..4 device activities on 1 rank (all class assignments) and 2 ranks x (<=2 activities each); "
                "ts,dur symbolic Int in [0,2^40]",
}
EXPLANATION = ("Real TraceAnalysis.get_comm_comp_overlap (CommunicationAnalysis.get_comm_comp_overlap, "
               "merge_kernel_intervals, get_kernel_type) run on traces loaded through the real Trace.load_traces; "
               "obligation: reported pct = round(100*num/den,2) with num = |U comm ∩ U comp| and den = |U comm| "
               "(inclusion-exclusion oracle), 0 <= pct <= 100. Non-trivial path = admits 0 < overlap < comm time.")
ASSUMPTIONS = ["precondition: total communication time > 0 (ratio undefined otherwise)",
               "timestamps/durations are integers in [0, 2^40]",
               "round(x,2) modelled as any real within 0.005 of x; float rounding error of the division ignored",
               "JSON reading stubbed (parse_trace_dict returns the symbolic event list)"]
STUBS = ["hta.common.trace_parser.parse_trace_dict", "Trace._validate_trace_files", "plotly", "logging"]


def skeletons(tier):
    out = []
    maxn = 3 if tier == "quick" else 4
    for n in range(1, maxn + 1):
        for w in multisets("CNMY", n):
            if "N" not in w or (tier == "quick" and w.count("Y") + w.count("M") > 1):
                continue
            out.append({"id": f"r1-{w}", "ranks": {"0": w}})
    for w in ["CN", "NC"]:
        out.append({"id": f"r1-{w}-stream0", "ranks": {"0": w}, "params": {"stream0": True}})
    for w, first in (("NC", "CN"), ("CN", "NC"), ("NM", "MCN")):
        out.append({"id": f"r1-{w}-after-trace-{first}", "ranks": {"0": w}, "params": {"first": first}})
    for pre in ("temporal", "kernels", "idle"):
        out.append({"id": f"r1-CN-after-{pre}", "ranks": {"0": "CN"}, "params": {"pre": [pre]}})
    if tier == "quick":
        # a long interval containing a short one and overlapping a later one (the shape in which a missing running
        # maximum in the interval merge matters); the shape is assumed, the times inside it are free
        for w in ["CNNN", "NCCC"]:
            out.append({"id": f"r1-{w}-nested", "ranks": {"0": w}, "params": {"shape": "nested"}})
    if tier == "thorough":
        for w0 in ["N", "CN", "NN"]:
            for w1 in ["N", "CN", "NM"]:
                out.append({"id": f"r2-{w0}-{w1}", "ranks": {"0": w0, "1": w1}})
    return out


def build(sk):
    """event specs with placeholders; returns {rank: [events]} and per rank the kernel list."""
    ranks, kinfo = {}, {}
    for r, w in sk["ranks"].items():
        ev = [TG.op("aten::mm", f"$r{r}_op_ts", f"$r{r}_op_dur")]
        ks = []
        for i, ch in enumerate(w):
            name, cat, cls = KCLASS[ch]
            ts, dur = f"$r{r}_k{i}_ts", f"$r{r}_k{i}_dur"
            ev.append(TG.kernel(name, ts, dur, stream=(0 if (sk.get('params', {}).get('stream0') and i == 0) else 7 + 13 * (i % 2)), corr=100 + i, cat=cat))
            ks.append((cls, ts, dur))
        ranks[int(r)] = ev
        kinfo[int(r)] = ks
    return ranks, kinfo


def run(ctx):
    ranks, kinfo = build(ctx.sk)
    events = {r: ctx.val(ev) for r, ev in ranks.items()}
    ivs = {}
    for r, ks in kinfo.items():
        comm = [(ctx.val(ts), ctx.val(ts) + ctx.val(d)) for c, ts, d in ks if c == "COMMUNICATION"]
        comp = [(ctx.val(ts), ctx.val(ts) + ctx.val(d)) for c, ts, d in ks if c == "COMPUTATION"]
        ivs[r] = (comm, comp)
        ctx.assume(union_len(comm) > 0)
        if ctx.params.get("shape") == "nested":
            same = [(ctx.val(ts), ctx.val(ts) + ctx.val(d)) for c, ts, d in ks][1:4]
            (a0, a1), (b0, b1), (c0, c1) = same
            ctx.assume(sand(a0 <= b0, b1 <= c0, c0 < a1, b0 <= b1))
    if ctx.params.get("first"):
        return _run_after_other_trace(ctx, events, ivs)
    ta = ctx.open(events)
    precalls(ctx, ta)
    _check(ctx, ta, ivs)


def _run_after_other_trace(ctx, events, ivs):
    """another trace (concrete times) is loaded and analysed first in the same process; the symbol numbering of the
    trace under test is chosen among the rotations/reversal of its vocabulary (recorded in the counterexample and
    replayed natively by patching the real parser's set() the same way), so that ids of the two traces collide in
    every possible way; nothing of the first trace may leak into the answer for the second"""
    import os
    from harness.c11 import NDSet
    if ctx.mode == "sym":
        tp = ctx.mods["hta.common.trace_parser"]
    else:
        import hta.common.trace_parser as tp
    tp.__dict__["set"] = NDSet
    base = getattr(ctx, "outdir", None)
    try:
        ev0 = [TG.op("aten::relu", 0, 1000)]
        for i, ch in enumerate(ctx.params["first"]):
            name, cat, _ = KCLASS[ch]
            ev0.append(TG.kernel(name, 10 + 20 * i, 15, stream=7 + 13 * (i % 2), corr=500 + i, cat=cat))
        if ctx.mode != "sym":
            ctx.outdir = os.path.join(base, "first")
        NDSet.forced = (0, 0)
        ta0 = ctx.open({0: ev0})
        try:
            ta0.get_comm_comp_overlap(visualize=False)
        except Exception as ex:       # noqa: BLE001
            if type(ex).__name__ in ("Unsupported", "HarnessError"):
                raise
        if ctx.mode != "sym":
            ctx.outdir = os.path.join(base, "second")
        NDSet.forced = (ctx.choose_recorded(6), ctx.choose_recorded(2))
        ta = ctx.open(events)
    finally:
        NDSet.forced = None
        if ctx.mode != "sym":
            tp.__dict__.pop("set", None)
    _check(ctx, ta, ivs)


def _check(ctx, ta, ivs):
    res = ta.get_comm_comp_overlap(visualize=False)
    rk = ctx.cells(res["rank"])
    pct = ctx.cells(res["comp_comm_overlap_pctg"])
    ctx.prove(sorted(int(x) for x in rk) == sorted(ivs), "one-row-per-rank", {"ranks": [int(x) for x in rk]})
    for r, p in zip(rk, pct):
        comm, comp = ivs[int(r)]
        den = union_len(comm)
        num = both_len(comm, comp)
        if ctx.mode == "sym":
            ctx.prove_ratio(p, num, den, "overlap-pct", {"rank": int(r)})
            ctx.prove(sand(num >= 0, num <= den), "pct-in-range", {"rank": int(r)})
            ctx.nontrivial(sand(num > 0, num < den))
        else:
            want = 100.0 * num / den
            ctx.prove(abs(p - want) <= 0.005 + 1e-9 * abs(want), "overlap-pct",
                      {"rank": int(r), "reported": p, "expected": want})
            ctx.prove(-1e-9 <= p <= 100 + 1e-9, "pct-in-range", {"rank": int(r), "reported": p})


def signature(label, sk, detail):
    return f"{ID}/{label}"
