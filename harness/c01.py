"""C01 — loaded events are a faithful, uniformly time-shifted image of the trace file."""
import itertools

from harness.common import sand, sor, snot
from symx import tracegen as TG
from symx.engine import sceil, sfloor, smin

ID = "C01"
MODULES = ["hta.trace_analysis"]
MUST_NOT_RAISE = True
BUDGET_S = {"quick": 300, "thorough": 1200}
BOUNDS = {
    "quick": "1 rank: every word of 1..3 entries over {host op, launch call, kernel, profiler 'Trace' span, metadata, "
             "flow, instant} with >= 1 complete event; 2 ranks: 6 word pairs; integer variant (symbolic Int ts/dur, "
             "arbitrary epoch) for all, fractional variant (symbolic Real ts/dur) for words of <= 2 entries",
    "thorough": "words of 1..4 entries (integer) / 1..3 (fractional), 2 ranks x all pairs of 2-entry words",
}
EXPLANATION = ("Real Trace.parse_traces and Trace.load_traces (parse_trace_file, _parse_trace_dataframe_json, _compress_df, "
               "round_down_time_stamps, transform_correlation_to_index, add_iteration, _align_all_ranks). Obligations: rows "
               "<-> complete non-'Trace' entries by file position; name/cat decode to the file's strings; pid, tid, dur, "
               "stream, correlation equal the file's; parse-only ts = (rounded) file ts; loaded ts = that minus one "
               "constant m = Trace.min_ts for all ranks, min ts = 0; end = ts + dur on every row; fractional: ts = "
               "ceil, end = floor(ts+dur), inside the original span, containment/disjointness preserved pairwise. "
               "Non-trivial path = two events with different start times (fractional: a genuinely fractional start).")
ASSUMPTIONS = ["each rank has >= 1 complete event", "0 <= ts <= 2^52 (epoch offset), 0 <= dur <= 2^40; fractional variant: reals in the same ranges",
               "JSON backend; ijson back-ends not installed; JSON reading stubbed"]
STUBS = ["hta.common.trace_parser.parse_trace_dict", "Trace._validate_trace_files", "plotly", "logging"]
KINDS = "ORKTMFI"
COMPLETE = set("ORKZz")      # Z: kernel with stream 0 / correlation 0, z: launch call with correlation 0


def skeletons(tier):
    out = []
    maxn = 3 if tier == "quick" else 4
    for n in range(1, maxn + 1):
        for w in itertools.product(KINDS, repeat=n):
            w = "".join(w)
            if not (set(w) & COMPLETE):
                continue
            out.append({"id": f"int-{w}", "ranks": [w], "params": {"frac": False}})
            if n <= (2 if tier == "quick" else 3):
                out.append({"id": f"frac-{w}", "ranks": [w], "params": {"frac": True}})
    # small absolute timestamps: the parser downcasts integer columns to the narrowest dtype that holds the values, so
    # ts/dur may become int8/int16 columns whose sums must still be right (dtype width decided by the solver)
    for w in (["O", "K", "OK", "RK", "KM"] if tier == "quick" else ["O", "K", "R", "OK", "RK", "KM", "OO", "KK", "OKR"]):
        out.append({"id": f"small-{w}", "ranks": [w], "params": {"frac": False, "small": True}})
    for w in ["Z", "z", "OZ", "zZ", "OzZ"]:
        out.append({"id": f"int-{w}", "ranks": [w], "params": {"frac": False}})
    pairs = [("O", "K"), ("OK", "RM"), ("MK", "TO"), ("OR", "O"), ("KI", "FO"), ("RK", "RK")]
    if tier == "thorough":
        ws = ["".join(w) for w in itertools.product("ORKTM", repeat=2) if set(w) & COMPLETE]
        pairs = [(a, b) for a in ws for b in ws]
    for a, b in pairs:
        out.append({"id": f"int-{a}+{b}", "ranks": [a, b], "params": {"frac": False}})
    out.append({"id": "frac-OK+RM", "ranks": ["OK", "RM"], "params": {"frac": True}})
    return out


def build(sk):
    ranks, info, vars_ = {}, {}, {}
    frac = sk["params"]["frac"]
    for r, w in enumerate(sk["ranks"]):
        ev, inf = [], []
        for i, ch in enumerate(w):
            ts, dur = f"$r{r}e{i}_ts", f"$r{r}e{i}_dur"
            # raw file timestamps are epoch based: up to 2^52 (exact in float64); durations up to 2^40
            small = sk["params"].get("small")
            vars_[ts[1:]] = ["real" if frac else "int", 0, 40000 if small else TG.T_EPOCH_MAX]
            vars_[dur[1:]] = ["real" if frac else "int", 0, 40000 if small else TG.T_MAX]
            pid, tid = 100 + r, 200 + i
            if ch == "O":
                e = TG.op("aten::mm", ts, dur, tid=tid, pid=pid)
                x = {"name": "aten::mm", "cat": "cpu_op", "stream": -1, "corr": -1}
            elif ch == "R":
                e = TG.runtime("cudaLaunchKernel", ts, dur, corr=50 + i, tid=tid, pid=pid)
                x = {"name": "cudaLaunchKernel", "cat": "cuda_runtime", "stream": -1, "corr": 50 + i}
            elif ch == "K":
                pid, tid = r, 7 + i
                e = TG.kernel("gemm_kernel", ts, dur, stream=7 + i, corr=50 + i, pid=pid)
                x = {"name": "gemm_kernel", "cat": "kernel", "stream": 7 + i, "corr": 50 + i}
            elif ch == "Z":
                pid, tid = r, 0
                e = TG.kernel("gemm_kernel", ts, dur, stream=0, corr=0, pid=pid)
                x = {"name": "gemm_kernel", "cat": "kernel", "stream": 0, "corr": 0}
            elif ch == "z":
                e = TG.runtime("cudaLaunchKernel", ts, dur, corr=0, tid=tid, pid=pid)
                x = {"name": "cudaLaunchKernel", "cat": "cuda_runtime", "stream": -1, "corr": 0}
            elif ch == "T":
                e = TG.trace_span(ts, dur)
                x = None
            elif ch == "M":
                e = TG.meta(pid=pid, tid=tid)
                x = None
            elif ch == "F":
                e = TG.flow(ts, 5, pid=pid, tid=tid)
                x = None
            else:
                e = TG.instant(ts, pid=pid, tid=tid)
                x = None
            ev.append(e)
            if x is not None:
                x.update({"id": i, "pid": pid, "tid": tid, "ts": ts, "dur": dur})
                inf.append(x)
        ranks[r], info[r] = ev, inf
    return ranks, info, vars_


def check_rows(ctx, df, inf, sym_table, shift, frac, tag, indexed):
    idx = [int(x) for x in ctx.cells(df["index"])]
    ctx.prove(idx == [x["id"] for x in inf], f"{tag}:rows-are-complete-events-by-position", {"idx": idx})
    if indexed:
        ctx.prove([int(x) for x in ctx.cells(df.index)] == idx, f"{tag}:frame-indexed-by-event-id", None)
    if idx != [x["id"] for x in inf]:
        return
    col = {c: ctx.cells(df[c]) for c in ["name", "cat", "pid", "tid", "ts", "dur", "stream", "correlation", "end"]}
    for j, x in enumerate(inf):
        d = {"event": x["id"]}
        ctx.prove(sym_table[int(col["name"][j])] == x["name"] and sym_table[int(col["cat"][j])] == x["cat"],
                  f"{tag}:name-cat-decode", d)
        ctx.prove(col["pid"][j] == x["pid"] and col["tid"][j] == x["tid"], f"{tag}:pid-tid", d)
        ctx.prove(int(col["stream"][j]) == x["stream"] and int(col["correlation"][j]) == x["corr"],
                  f"{tag}:stream-correlation", d)
        ts0, dur0 = ctx.val(x["ts"]), ctx.val(x["dur"])
        if frac:
            rts, rend = sceil(ts0), sfloor(ts0 + dur0)
            ctx.prove(sand(col["ts"][j] == rts - shift, col["dur"][j] == rend - rts), f"{tag}:ts-dur-rounded-inward", d)
        else:
            ctx.prove(sand(col["ts"][j] == ts0 - shift, col["dur"][j] == dur0), f"{tag}:ts-dur", d)
        ctx.prove(col["end"][j] == col["ts"][j] + col["dur"][j], f"{tag}:end-is-ts-plus-dur", d)
        if frac:
            ctx.prove(sand(col["ts"][j] + shift >= ts0, col["end"][j] + shift <= ts0 + dur0),
                      f"{tag}:rounded-span-inside-original", d)
    if frac:
        for a in range(len(inf)):
            for b in range(len(inf)):
                if a == b:
                    continue
                A, B = inf[a], inf[b]
                a0, a1 = ctx.val(A["ts"]), ctx.val(A["ts"]) + ctx.val(A["dur"])
                b0, b1 = ctx.val(B["ts"]), ctx.val(B["ts"]) + ctx.val(B["dur"])
                ctx.prove(sor(snot(sand(a0 <= b0, b1 <= a1)),
                              sand(col["ts"][a] <= col["ts"][b], col["end"][b] <= col["end"][a])),
                          f"{tag}:containment-preserved", {"outer": A["id"], "inner": B["id"]})
                ctx.prove(sor(snot(a1 <= b0), col["end"][a] <= col["ts"][b]), f"{tag}:disjointness-preserved",
                          {"first": A["id"], "second": B["id"]})


def run(ctx):
    from symx import pdcore
    pdcore.NARROW["symbolic"] = bool(ctx.sk["params"].get("small")) and ctx.mode == "sym"
    try:
        return _run(ctx)
    finally:
        pdcore.NARROW["symbolic"] = False


def _run(ctx):
    sk = ctx.sk
    ranks, info, vars_ = build(sk)
    sk.setdefault("vars", {}).update(vars_)
    frac = ctx.params["frac"]
    events = {r: ctx.val(ev) for r, ev in ranks.items()}
    # ---- parse only ------------------------------------------------------------------------
    ta = ctx.open(events, load=False)
    ta.t.parse_traces(use_multiprocessing=False)
    for r in events:
        check_rows(ctx, ta.t.get_trace(r), info[r], ta.t.symbol_table.sym_table, 0, frac, "parse", False)
    # ---- full load ---------------------------------------------------------------------------
    ta = ctx.open(events)
    m = None
    for r in events:
        for x in info[r]:
            v = ctx.val(x["ts"])
            v = sceil(v) if frac else v
            m = v if m is None else smin(m, v)
    ctx.prove(ta.t.min_ts == m, "load:min_ts-is-the-global-minimum", None)
    lo = None
    for r in events:
        df = ta.t.get_trace(r)
        check_rows(ctx, df, info[r], ta.t.symbol_table.sym_table, m, frac, "load", True)
        for v in ctx.cells(df["ts"]):
            lo = v if lo is None else smin(lo, v)
    ctx.prove(lo == 0, "load:earliest-event-at-zero", None)
    if ctx.mode == "sym":
        allx = [x for r in info for x in info[r]]
        if frac:
            t0 = ctx.val(allx[0]["ts"])
            ctx.nontrivial(sceil(t0) != t0)
        elif len(allx) >= 2:
            ctx.nontrivial(ctx.val(allx[0]["ts"]) != ctx.val(allx[1]["ts"]))
        else:
            ctx.nontrivial(ctx.val(allx[0]["ts"]) > 0)


def signature(label, sk, detail):
    return f"{ID}/{label}"
