"""C10 — critical-path breakdown conserves the path weight and attributes it correctly."""
from harness import cp_common as CP
from harness.common import close, sand, sor, snot

ID = "C10"
MODULES = CP.MODULES
MUST_NOT_RAISE = True
TIE_MODE = CP.TIE_MODE
TIE_STABLE_FUNCS = CP.TIE_STABLE_FUNCS
SORT_SKIP_FUNCS = CP.SORT_SKIP_FUNCS
STUBS = CP.STUBS
ASSUMPTIONS = CP.ASSUMPTIONS + ["summary percentages: exact rationals (float rounding outside), only when the path weight > 0"]
BUDGET_S = {"quick": 540, "thorough": 1200}
BOUNDS = {
    "quick": "every successful analysis of 11 structures (0..2 launch/kernel pairs incl. communication kernels, stream "
             "synchronisation, nested operators, a user annotation between an operator and its calls, CUDA event wait, two operators) over the whole-trace window and of 3 structures over the ProfilerStep window",
    "thorough": "all 20 structures, both windows, zero-weight launch edges on/off",
}
EXPLANATION = ("Real CPGraph.get_critical_path_breakdown, summary, bound_by, _attribute_edge (through the real graph "
               "construction and real dag_longest_path). Obligations: one row per critical edge; durations add up to the "
               "path weight; per (edge type, attributed event) the rows carry the edges' weights; every span edge is "
               "attributed to an existing event on the thread/stream of the edge's endpoint events whose span covers "
               "[src.ts, dest.ts]; a kernel-kernel delay edge to the kernel preceding the gap; bound_by follows from the "
               "attributed event (host: cpu_bound; nccl kernel: gpu_communication_bound; other device: gpu_compute_bound; "
               "delay edges: their overhead class; dependency/sync: empty); summary() = per-class share of the total in "
               "percent, adding up to 100. Non-trivial path = a critical path with >= 2 different bound_by classes.")


def skeletons(tier):
    out = []

    def add(n, anno, step, z=False):
        out.append({"id": f"{n}-{anno or 'all'}-z{int(z)}", "struct": n,
                    "params": {"anno": anno, "inst": 0 if anno else None, "step": step, "zero": z}})
    if tier == "quick":
        for n in ("I", "A", "B", "C", "D", "E", "Q", "T", "K", "X", "Z"):
            add(n, "", False)
        for n in ("A", "B", "E"):
            add(n, "ProfilerStep", True)
        return out
    for n in CP.STRUCTS:
        for z in (False, True):
            add(n, "", False, z)
        add(n, "ProfilerStep", True)
    return out


def run(ctx):
    P = ctx.params
    R = CP.run_analysis(ctx, CP.STRUCTS[ctx.sk["struct"]], P["anno"], P["inst"], P["zero"], P["step"], "all")
    res = R["res"]
    ctx.prove(res is not None and res[1] is True, "analysis-succeeds", None)
    if res is None or res[1] is not True:
        return
    g, m = res[0], R["m"]
    if ctx.mode == "sym":
        CPA = ctx.mods["hta.analyzers.critical_path_analysis"]
    else:
        import hta.analyzers.critical_path_analysis as CPA
    T = CPA.CPEdgeType
    byid = {x["id"]: x for x in R["H"] + R["K"] + R["Y"]}
    df = g.get_critical_path_breakdown()
    edges = list(g.critical_path_edges_set)
    ctx.prove(df is not None and len(df) == len(edges), "one-row-per-critical-edge",
              {"rows": None if df is None else len(df), "edges": len(edges)})
    if df is None or len(df) != len(edges):
        return
    ev_col = ctx.cells(df["event_idx"])
    dur = ctx.cells(df["duration"])
    typ = [str(x) for x in ctx.cells(df["type"])]
    bnd = [str(x) for x in ctx.cells(df["bound_by"])]
    strm = ctx.cells(df["stream"])
    total = 0
    for u, v in zip(g.critical_path_nodes, g.critical_path_nodes[1:]):
        total = total + g.edges[u, v]["object"].weight
    s = 0
    for d in dur:
        s = s + d
    ctx.prove(s == total, "durations-add-up-to-path-weight", None)

    def key_of_row(j):
        e = ev_col[j]
        return (typ[j], None if (e is None or (isinstance(e, float) and e != e)) else int(e))

    want, got = {}, {}
    classes = set()
    for e in edges:
        att = g.get_event_attribution_for_edge(e)
        k = (str(e.type.value), None if att is None else int(att))
        c, w = want.get(k, (0, 0))
        want[k] = (c + 1, w + e.weight)
        src, dst = g.node_list[e.begin], g.node_list[e.end]
        a, b = byid.get(int(src.ev_idx)), byid.get(int(dst.ev_idx))
        d = {"edge": (int(src.ev_idx), bool(src.is_start), int(dst.ev_idx), bool(dst.is_start)), "type": e.type.name,
             "attributed": att}
        if e.type == T.OPERATOR_KERNEL:
            ok = att is not None and int(att) in byid
            ctx.prove(ok, "span-edge-attributed-to-an-existing-event", d)
            if ok:
                X = byid[int(att)]
                same_lane = (X["stream"] == a["stream"] == b["stream"]) and (X["kind"] != "host" or True)
                ctx.prove(same_lane, "span-edge-attributed-on-the-same-thread-or-stream", d)
                ctx.prove(sand(X["ts"] - m <= src.ts, dst.ts <= X["end"] - m), "attributed-event-covers-the-edge", d)
        elif e.type == T.KERNEL_KERNEL_DELAY:
            ctx.prove(att is not None and int(att) == int(src.ev_idx) and a["kind"] == "kernel",
                      "kernel-kernel-delay-attributed-to-preceding-kernel", d)
        else:
            ctx.prove(att is None, "dependency-launch-and-sync-edges-not-attributed", d)
    for j in range(len(typ)):
        k = key_of_row(j)
        c, w = got.get(k, (0, 0))
        got[k] = (c + 1, w + dur[j])
        # bound_by of the row
        if typ[j] == "critical_path_kernel_kernel_delay":
            exp = "gpu_kernel_kernel_overhead"
        elif typ[j] == "critical_path_kernel_launch_delay":
            exp = "gpu_kernel_launch_overhead"
        elif typ[j] in ("critical_path_dependency", "critical_path_sync_dependency"):
            exp = ""
        else:
            X = byid.get(k[1])
            if X is None:
                exp = "?"
            elif X["stream"] < 0:
                exp = "cpu_bound"
            elif X.get("name", "").startswith("nccl"):
                exp = "gpu_communication_bound"
            else:
                exp = "gpu_compute_bound"
            if X is not None:
                ctx.prove(int(strm[j]) == X["stream"], "row-stream-is-the-attributed-event's", {"row": j})
        classes.add(exp)
        ctx.prove(bnd[j] == exp, "bound-by-class", {"row": j, "type": typ[j], "event": k[1], "got": bnd[j], "want": exp})
    ctx.prove(set(want) == set(got), "rows-match-critical-edges", {"want": sorted(map(str, want)), "got": sorted(map(str, got))})
    for k in want:
        if k in got:
            ctx.prove(sand(got[k][0] == want[k][0], got[k][1] == want[k][1]), "row-durations-are-the-edge-weights",
                      {"key": str(k)})
    # ---- summary ----------------------------------------------------------------------------------------------
    if ctx.mode == "sym":
        nonzero = total > 0
        if not ctx.ex.can(nonzero):
            return
        ctx.assume(nonzero)
    elif not total > 0:
        return
    import builtins
    saved = builtins.print
    builtins.print = lambda *a, **k: None
    try:
        summ = g.summary()
    finally:
        builtins.print = saved
    labels = [str(x) for x in ctx.cells(summ.index)]
    vals = ctx.cells(summ)
    per = {}
    for j in range(len(typ)):
        per[bnd[j]] = per.get(bnd[j], 0) + dur[j]
    ctx.prove(sorted(labels) == sorted(per), "summary-classes", {"got": sorted(labels), "want": sorted(per)})
    acc = 0
    for lab, v in zip(labels, vals):
        if lab in per:
            if ctx.mode == "sym":
                ctx.prove_ratio(v, per[lab], total, "summary-percentage", {"class": lab}, scale=100, places=None)
            else:
                ctx.prove(abs(v - 100.0 * per[lab] / total) <= 1e-6, "summary-percentage", {"class": lab, "got": v})
        acc = acc + v
    if ctx.mode != "sym":
        ctx.prove(abs(acc - 100.0) <= 1e-6, "summary-adds-up-to-100", {"sum": acc})
    if ctx.mode == "sym" and (len(classes - {""}) >= 2 or ctx.sk["struct"] == "I"):
        ctx.nontrivial(True)


def signature(label, sk, detail):
    return f"{ID}/{label}"
