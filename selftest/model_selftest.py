"""Differential self-test of the symbolic pandas model (concrete cells) against the real pandas of this sandbox.

Run:  /verif/.venv/bin/python -m selftest.model_selftest [seed] [rounds]
Every operation of the list below is applied to the same randomly generated small frames in both worlds; the
results are normalised to plain Python (columns, index labels, cells; NaN == NaN; floats within 1e-9) and compared.
Exit 0 when everything agrees, 1 otherwise (prints the first disagreements)."""
import math
import random
import sys

import pandas as real_pd

sys.path.insert(0, "/verif")
from symx import sympd as sym_pd  # noqa: E402
from symx import symnp as sym_np  # noqa: E402
import numpy as real_np  # noqa: E402


def norm_cell(v):
    if v is None:
        return "NaN"
    if isinstance(v, float) and v != v:
        return "NaN"
    if hasattr(v, "item") and not isinstance(v, (str, bytes)):
        try:
            v = v.item()
        except Exception:
            pass
    if v is real_pd.NA or (isinstance(v, float) and v != v):
        return "NaN"
    if isinstance(v, bool):
        return bool(v)
    if isinstance(v, float):
        return int(v) if v == int(v) and abs(v) < 1e15 else round(v, 9)
    if isinstance(v, (list, tuple)):
        return [norm_cell(x) for x in v]
    return v


def norm(x):
    if isinstance(x, (real_pd.DataFrame, sym_pd.DataFrame)):
        cols = [c if not isinstance(c, tuple) else tuple(c) for c in list(x.columns)]
        return {"columns": cols, "index": [norm_cell(i) for i in list(x.index)],
                "cells": {str(c): [norm_cell(v) for v in x[c].tolist()] for c in cols}}
    if isinstance(x, (real_pd.Series, sym_pd.Series)):
        return {"index": [norm_cell(i) for i in list(x.index)], "vals": [norm_cell(v) for v in x.tolist()]}
    if isinstance(x, (real_pd.Index,)) or type(x).__name__ in ("Index", "MultiIndex"):
        return [norm_cell(v) for v in list(x)]
    if hasattr(x, "tolist") and not isinstance(x, (str, bytes)):
        return norm_cell(x.tolist())
    if isinstance(x, dict):
        return {str(k): norm(v) for k, v in x.items()}
    if isinstance(x, (list, tuple)):
        return [norm(v) for v in x]
    return norm_cell(x)


def gen_frame(rnd, n):
    keys = [rnd.randint(0, 3) for _ in range(n)]
    return {
        "k": keys,
        "a": [rnd.randint(-5, 9) for _ in range(n)],
        "b": [rnd.choice([1, 2, 3, 5, 8]) + 10 * i for i in range(n)],          # unique, ascending
        "f": [rnd.choice([float("nan"), 0.5, 2.0, 7.25]) for _ in range(n)],
        "s": [rnd.choice(["x", "y", "zz"]) for _ in range(n)],
    }


OPS = {
    "getitem_col": lambda pd, np, d, e: d["a"],
    "getitem_cols": lambda pd, np, d, e: d[["b", "a"]],
    "mask_gt": lambda pd, np, d, e: d[d["a"] > 2],
    "mask_and": lambda pd, np, d, e: d[(d["a"] >= 0) & d["k"].ne(1)],
    "loc_mask_cols": lambda pd, np, d, e: d.loc[d["k"].eq(2), ["a", "s"]],
    "loc_set": lambda pd, np, d, e: _mut(d, lambda x: x.loc.__setitem__((x["a"] < 0, "a"), 0)),
    "iloc_row": lambda pd, np, d, e: d.iloc[-1]["b"],
    "sort_multi": lambda pd, np, d, e: d.sort_values(by=["k", "b"], ascending=[False, True]),
    "sort_unique_key": lambda pd, np, d, e: d.sort_values(by="b", ascending=False, ignore_index=True),
    "shift_cummax": lambda pd, np, d, e: (d["b"] > d["a"].shift().cummax()).cumsum(),
    "shift_neg": lambda pd, np, d, e: d["a"].shift(-1),
    "cumsum": lambda pd, np, d, e: d["a"].cumsum(),
    "arith": lambda pd, np, d, e: (d["b"] - d["a"]) * 2 + d["f"],
    "div": lambda pd, np, d, e: d["a"] / d["b"],
    "clip": lambda pd, np, d, e: (d["a"] - 3).clip(lower=0),
    "minimum": lambda pd, np, d, e: np.minimum(d["a"], 0),
    "isin": lambda pd, np, d, e: d["k"].isin([1, 3]),
    "unique": lambda pd, np, d, e: d["k"].unique(),
    "reductions": lambda pd, np, d, e: [d["a"].sum(), d["a"].min(), d["a"].max(), d["f"].sum(), d["f"].count(), d["b"].mean()],
    "quantile": lambda pd, np, d, e: d["b"].quantile(0.8),
    "groupby_agg_dict": lambda pd, np, d, e: d.groupby("k", as_index=False).agg({"a": "min", "b": "max"}),
    "groupby_col_list": lambda pd, np, d, e: d.groupby(by=["s"])["a"].agg(["sum", "max", "min", "mean"]),
    "groupby_sum_series": lambda pd, np, d, e: d.groupby("k").a.sum(),
    "groupby_iter": lambda pd, np, d, e: [(k, g["b"].tolist()) for k, g in d.groupby("k")],
    "groupby_cumsum": lambda pd, np, d, e: d.groupby("k")["a"].cumsum(),
    "groupby_two_keys": lambda pd, np, d, e: d[["k", "s", "a"]].groupby(["k", "s"]).aggregate(["count", "sum"]),
    "groupby_max_frame": lambda pd, np, d, e: d[["k", "a", "b"]].groupby("k").max(),
    # many-to-many inner merge: pandas documents left-key order, 3.0.6 deviates for some equal-length inputs; the
    # model follows the documented order, so the rows are compared as a multiset (known limitation, DESIGN 4.1)
    "merge_inner": lambda pd, np, d, e: sorted(map(tuple, d[["k", "a"]].merge(e[["k", "b"]], on="k", how="inner")
                                                     .to_numpy().tolist())),
    "merge_inner_m1": lambda pd, np, d, e: d[["k", "a"]].merge(e[["k", "b"]].drop_duplicates("k"), on="k", how="inner"),
    "merge_left": lambda pd, np, d, e: d[["k", "a"]].merge(e[["k", "b"]].drop_duplicates("k"), on="k", how="left"),
    "merge_index": lambda pd, np, d, e: d[["a"]].merge(e[["b"]], left_index=True, right_index=True),
    "join_on": lambda pd, np, d, e: d[["k", "a"]].join(e.drop_duplicates("k").set_index("k")[["b"]], on="k", rsuffix="_r"),
    "concat_rows": lambda pd, np, d, e: pd.concat([d[["a", "s"]], e[["a", "f"]]], ignore_index=True),
    "concat_cols": lambda pd, np, d, e: pd.concat([d["a"], d["b"]], axis=1),
    "concat_keys": lambda pd, np, d, e: pd.concat([d[["a"]], e[["a"]]], axis=0, keys=[7, 9], names=["rank", "idx"]).reset_index(),
    "melt_replace": lambda pd, np, d, e: d[["a", "b"]].melt(var_name="st", value_name="t").replace({"a": 1, "b": -1}),
    "dropna": lambda pd, np, d, e: d.dropna(subset=["f"]),
    "fillna_dict": lambda pd, np, d, e: d.fillna({"f": 0}),
    "drop_cols": lambda pd, np, d, e: d.drop(["s", "f"], axis=1),
    "drop_rows": lambda pd, np, d, e: d.drop(d[d["k"] == 1].index),
    "rename": lambda pd, np, d, e: d.rename(columns={"a": "A"}),
    "reset_set_index": lambda pd, np, d, e: d.set_index("b", drop=False).reset_index(drop=True),
    "set_index_loc": lambda pd, np, d, e: d.set_index("b").loc[d["b"].iloc[0], "a"],
    "apply_rows": lambda pd, np, d, e: d[["a", "b"]].apply(lambda r: r["a"] + r["b"], axis=1),
    "apply_series": lambda pd, np, d, e: d["s"].apply(lambda x: x + "!"),
    "query": lambda pd, np, d, e: d.query("(k == 1 or k == 2) and (a >= 0)"),
    "itertuples": lambda pd, np, d, e: [(t.Index, t.a, t.s) for t in d.itertuples()],
    "to_dict_records": lambda pd, np, d, e: d[["a", "s"]].to_dict("records"),
    "to_numpy": lambda pd, np, d, e: d[["a", "b"]].to_numpy(),
    "str_ops": lambda pd, np, d, e: [d["s"].str.startswith("z"), d["s"].str.match("x|z")],
    "astype_round": lambda pd, np, d, e: (d["a"] / 3).round(2),
    "to_numeric": lambda pd, np, d, e: pd.to_numeric(d["a"] * 1.0, downcast="integer"),
    "drop_duplicates": lambda pd, np, d, e: d[["k", "s"]].drop_duplicates(),
    "series_from_dict": lambda pd, np, d, e: pd.Series({"p": 1, "q": 2})[pd.Series({"p": 1, "q": 2}).index.str.startswith("q")],
    "describe_sum": lambda pd, np, d, e: d.groupby("k").a.describe()[["count", "min", "max"]],
    "rank_min": lambda pd, np, d, e: d["a"].rank(method="min", ascending=False),
    "explode": lambda pd, np, d, e: pd.DataFrame({"p": ["u", "v"], "q": [[1, 2], [3]]}).explode("q"),
    "index_union": lambda pd, np, d, e: d[d["a"] > 0].index.union(e[e["a"] < 3].index),
    "where_np": lambda pd, np, d, e: np.where(d["a"].gt(0), 0, -1),
    "frame_loc_labels": lambda pd, np, d, e: d.loc[[d.index[-1], d.index[0]]][["a"]],
    "sum_ratio_empty": lambda pd, np, d, e: [d[d["a"] > 100]["a"].sum() / d[d["a"] > 100]["b"].sum(),
                                             d["b"].sum() / d[d["a"] > 100]["b"].sum()],
    "narrow_loc_set": lambda pd, np, d, e: [_try(lambda: _mut(_narrow(pd, d), lambda x: x.loc.__setitem__((x["a"] < 0, "n"), v)))
                                            for v in (5, 500, -1)]
                                           + [_try(lambda: _mut(_narrow(pd, d), lambda x: x.loc.__setitem__(([x.index[0]], "n"), w(x))))
                                              for w in (lambda x: [7], lambda x: x["b"].iloc[:1].values, lambda x: x["n"].iloc[:1].values,
                                                        lambda x: x["b"].iloc[:1])],
    "narrow_min_merge": lambda pd, np, d, e: [str(np.minimum(_narrow(pd, d)["n"], 0).dtype),
                                              _try(lambda: {"n": np.maximum(_narrow(pd, d)["n"], 300)}),
                                              [str(x) for x in _narrow(pd, d)[["n", "b"]].merge(_narrow(pd, e)[["n", "a"]], on="n").dtypes.tolist()],
                                              [str(x) for x in _narrow(pd, d)[["n", "b"]].merge(_narrow(pd, e)[["n", "a"]].drop_duplicates("n").rename(columns={"n": "m"}),
                                                                                                    left_on="b", right_on="m", how="left").dtypes.tolist()]],
    "sort_long": lambda pd, np, d, e: pd.DataFrame({"x": [(i * 7 + d["a"].iloc[0]) % 13 for i in range(40)], "y": list(range(40))})
    .sort_values(["x", "y"], ascending=[True, False]),
    "sort_long_stable": lambda pd, np, d, e: pd.DataFrame({"x": [(i * 5 + d["a"].iloc[0]) % 11 for i in range(40)], "y": list(range(40))})
    .sort_values("x", kind="stable"),
    "between": lambda pd, np, d, e: [d["a"].between(1, 7, inclusive=i) for i in ("both", "left", "right", "neither")],
    "dtype_kinds": lambda pd, np, d, e: [d[c].dtype.kind for c in ["k", "f", "s"]] + [str(d["s"].dtype == "object")],
}


def _narrow(pd, d):
    d = d.copy()
    d["n"] = pd.to_numeric(d["k"], downcast="integer")     # int8
    return d


def _try(f):
    try:
        r = f()
        return [str(r["n"].dtype), r["n"].tolist()]
    except (TypeError, OverflowError) as ex:
        return type(ex).__name__


def _mut(d, f):
    d = d.copy()
    f(d)
    return d


def run(seed=0, rounds=40):
    rnd = random.Random(seed)
    bad = []
    nchecks = 0
    for r in range(rounds):
        n = rnd.randint(1, 6)
        g1, g2 = gen_frame(rnd, n), gen_frame(rnd, rnd.randint(1, 5))
        for name, op in OPS.items():
            outs = []
            for pd, np in ((real_pd, real_np), (sym_pd, sym_np)):
                d, e = pd.DataFrame(g1), pd.DataFrame(g2)
                try:
                    outs.append(("ok", norm(op(pd, np, d, e))))
                except Exception as ex:        # noqa: BLE001
                    outs.append(("raised", type(ex).__name__))
            nchecks += 1
            if outs[0] != outs[1]:
                bad.append((name, r, g1, g2, outs))
    print(f"model self-test: {nchecks} comparisons over {len(OPS)} operations, {len(bad)} disagreements")
    seen = set()
    for name, r, g1, g2, outs in bad:
        if name in seen:
            continue
        seen.add(name)
        print(f"  DISAGREE {name} (round {r})\n    frame={g1}\n    real ={str(outs[0])[:400]}\n    model={str(outs[1])[:400]}")
    return 1 if bad else 0


if __name__ == "__main__":
    sys.exit(run(int(sys.argv[1]) if len(sys.argv) > 1 else 0, int(sys.argv[2]) if len(sys.argv) > 2 else 40))
