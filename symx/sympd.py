"""`pandas` stand-in: re-exports the symbolic model under pandas' public names."""
from . import symnp as _np
from .pdcore import (NA, DType, ExtDtype, Index, Int16Dtype, Int32Dtype, Int64Dtype, Interval, IntervalIndex,
                     MultiIndex, RangeIndex, StringDtype, TIE_MODE, infer_dtype, sort_positions)
from .pdseries import Series
from .pdframe import DataFrame
from .pdops import (GroupBy, concat, cut, isna, isnull, merge, notna, notnull, read_csv, read_json, to_datetime,
                    to_numeric, unique)

__version__ = "3.0.6-symx"
NaT = None


class _NS:
    pass


core = _NS()
core.series = _NS()
core.series.Series = Series
core.frame = _NS()
core.frame.DataFrame = DataFrame
api = _NS()
api.types = _NS()
api.types.is_numeric_dtype = lambda d: getattr(d, "kind", getattr(getattr(d, "dtype", None), "kind", "O")) in "ifb"
api.types.is_string_dtype = lambda d: getattr(d, "kind", getattr(getattr(d, "dtype", None), "kind", "i")) == "O"
api.types.is_integer_dtype = lambda d: getattr(d, "kind", getattr(getattr(d, "dtype", None), "kind", "O")) == "i"
options = _NS()
options.mode = _NS()
options.mode.chained_assignment = None
options.display = _NS()


def set_option(*a, **k):
    pass


def option_context(*a, **k):
    import contextlib
    return contextlib.nullcontext()
