"""Symbolic pandas model: DataFrame (copy semantics everywhere = pandas-3 copy-on-write as HTA observes it)."""
from __future__ import annotations

from . import engine as E
from . import symnp as np
from .pdcore import (INT_BITS, C_EQ, NAN, DType, Index, MultiIndex, all_concrete, default_index, hashable_key, infer_dtype, is_na,
                     same_label, sort_positions, truth)
from .pdseries import _STICKY, Series, _is_listlike, _is_mask, _mask_cells, _round_cell


class DataFrame:
    __array_priority__ = 3000
    _internal = ("_data", "_dt", "index", "_colnames")

    # -- construction -----------------------------------------------------------
    def __init__(self, data=None, index=None, columns=None, dtype=None, copy=None):
        cols, dts, idx = {}, {}, None
        if isinstance(data, DataFrame):
            cols = {c: list(v) for c, v in data._data.items()}
            dts = dict(data._dt)
            idx = data.index.copy()
        elif isinstance(data, Series):
            n = data.name if data.name is not None else 0
            cols, dts, idx = {n: list(data._vals)}, {n: data._dtype}, data.index.copy()
        elif isinstance(data, dict):
            series_idx = None
            n = None
            for c, v in data.items():
                if isinstance(v, Series):
                    if series_idx is None:
                        series_idx = v.index
                    elif not series_idx.identical_concrete(v.index):
                        series_idx = series_idx.union(v.index)
                elif isinstance(v, dict):
                    raise E.Unsupported("DataFrame from dict of dicts")
                elif _is_listlike(v):
                    n = len(list(v)) if not hasattr(v, "__len__") else len(v)
            if series_idx is not None:
                idx = series_idx.copy()
                n = len(idx)
            elif n is None:
                if index is None and data:
                    raise ValueError("If using all scalar values, you must pass an index")
                n = len(index) if index is not None else 0
            for c, v in data.items():
                if isinstance(v, Series):
                    cols[c] = list(v._aligned_to(idx))
                    dts[c] = v._dtype
                elif _is_listlike(v):
                    vv = list(np._cells(v) if np._cells(v) is not None else v)
                    if len(vv) != n:
                        raise ValueError("All arrays must be of the same length")
                    cols[c] = vv
                else:
                    cols[c] = [v] * n
        elif data is None:
            pass
        else:
            rows = list(data._d) if isinstance(data, np.ndarray) else list(data)
            if rows and all(isinstance(r, dict) for r in rows):
                keys = []
                for r in rows:
                    for k in r:
                        if k not in keys:
                            keys.append(k)
                cols = {k: [r.get(k, NAN) for r in rows] for k in keys}
                cols = {k: [NAN if v is None else v for v in vs] for k, vs in cols.items()}
            elif rows and all(isinstance(r, Series) for r in rows):
                keys = []
                for r in rows:
                    for k in r.index._vals:
                        if k not in keys:
                            keys.append(k)
                cols = {k: [r.get(k, NAN) for r in rows] for k in keys}
                idx = Index([r.name for r in rows])
            elif rows and all(isinstance(r, (list, tuple, np.ndarray)) for r in rows):
                rows = [list(r) for r in rows]
                w = len(rows[0])
                names = list(columns) if columns is not None else list(range(w))
                cols = {names[j]: [r[j] for r in rows] for j in range(w)}
                columns = None
            elif rows:
                names = list(columns) if columns is not None else [0]
                cols = {names[0]: rows}
                columns = None
            elif columns is not None:
                cols = {c: [] for c in columns}
                columns = None
        n = len(next(iter(cols.values()))) if cols else (len(index) if index is not None else 0)
        if idx is None:
            idx = index if isinstance(index, Index) else (Index(index) if index is not None else default_index(n))
        elif index is not None:
            new = index if isinstance(index, Index) else Index(index)
            if not idx.identical_concrete(new):
                tmp = DataFrame._from_cols(cols, idx, dts)
                tmp = tmp.reindex(new)
                cols, dts, idx = tmp._data, tmp._dt, tmp.index
        if columns is not None:
            columns = list(columns)
            cols = {c: cols.get(c, [NAN] * len(idx)) for c in columns}
        object.__setattr__(self, "_data", cols)
        object.__setattr__(self, "_dt", {c: dts.get(c) for c in cols})
        object.__setattr__(self, "index", idx)
        object.__setattr__(self, "_colnames", None)
        if dtype is not None:
            for c in list(cols):
                s = self[c].astype(dtype)
                self._data[c], self._dt[c] = s._vals, s._dtype

    @classmethod
    def _from_cols(cls, cols, index, dts=None, colnames=None):
        df = cls.__new__(cls)
        object.__setattr__(df, "_data", cols)
        object.__setattr__(df, "_dt", {c: (dts or {}).get(c) for c in cols})
        object.__setattr__(df, "index", index)
        object.__setattr__(df, "_colnames", colnames)
        return df

    @classmethod
    def from_dict(cls, data, orient="columns", dtype=None, columns=None):
        if orient == "index":
            keys = list(data.keys())
            rows = [list(data[k]) for k in keys]
            if not rows:
                return cls._from_cols({c: [] for c in (columns or [])}, Index([]))
            first = next(iter(data.values()))
            names = list(columns) if columns is not None else (
                list(first._fields) if hasattr(first, "_fields") else list(range(len(rows[0]))))
            return cls._from_cols({names[j]: [r[j] for r in rows] for j in range(len(names))}, Index(keys))
        return cls(data, columns=columns)

    @classmethod
    def from_records(cls, data, columns=None, index=None, **kw):
        rows = list(data)
        if rows and isinstance(rows[0], dict):
            return cls(rows, columns=columns)
        return cls(rows, columns=columns)

    # -- attribute protocol -----------------------------------------------------
    def __getattr__(self, name):
        if name.startswith("__"):
            raise AttributeError(name)
        d = object.__getattribute__(self, "_data")
        if name in d:
            return self[name]
        raise AttributeError(f"'DataFrame' object has no attribute '{name}'")

    def __setattr__(self, name, value):
        if name in ("index", "columns") or name in DataFrame._internal:
            if name == "columns":
                self._set_columns(value)
            elif name == "index":
                idx = value if isinstance(value, Index) else Index(value)
                if len(idx) != len(self.index):
                    raise ValueError("Length mismatch")
                object.__setattr__(self, "index", idx)
            else:
                object.__setattr__(self, name, value)
        elif name in self._data:
            self[name] = value
        else:
            object.__setattr__(self, name, value)

    # -- shape / basic accessors ------------------------------------------------
    @property
    def columns(self):
        names = list(self._data)
        if names and all(isinstance(c, tuple) for c in names):
            return MultiIndex(names, names=self._colnames)
        return Index(names, name=self._colnames[0] if self._colnames else None)

    def _set_columns(self, value):
        names = list(value)
        if len(names) != len(self._data):
            raise ValueError("Length mismatch: Expected axis has %d elements, new values have %d elements"
                             % (len(self._data), len(names)))
        old = list(self._data)
        object.__setattr__(self, "_data", {n: self._data[o] for n, o in zip(names, old)})
        object.__setattr__(self, "_dt", {n: self._dt.get(o) for n, o in zip(names, old)})
        object.__setattr__(self, "_colnames", None)

    @property
    def shape(self):
        return (len(self.index), len(self._data))

    @property
    def empty(self):
        return len(self.index) == 0 or not self._data

    @property
    def size(self):
        return len(self.index) * len(self._data)

    @property
    def dtypes(self):
        return Series([DType(self._dt.get(c) or infer_dtype(v)) for c, v in self._data.items()],
                      index=Index(list(self._data)))

    @property
    def values(self):
        return self.to_numpy()

    @property
    def loc(self):
        return _Loc(self)

    @property
    def iloc(self):
        return _ILoc(self)

    @property
    def at(self):
        return _Loc(self)

    @property
    def iat(self):
        return _ILoc(self)

    @property
    def T(self):
        raise E.Unsupported("transpose")

    def __len__(self):
        return len(self.index)

    def __iter__(self):
        return iter(list(self._data))

    def __contains__(self, c):
        return c in self._data

    def keys(self):
        return self.columns

    def __repr__(self):
        return f"DataFrame(index={self.index._vals!r}, {self._data!r})"

    __hash__ = None

    def __bool__(self):
        raise ValueError("The truth value of a DataFrame is ambiguous.")

    def copy(self, deep=True):
        return DataFrame._from_cols({c: list(v) for c, v in self._data.items()}, self.index.copy(), dict(self._dt),
                                    self._colnames)

    def _col(self, c):
        s = Series.__new__(Series)
        s._vals = list(self._data[c])
        s.index = self.index.copy()
        s.name = c
        s._dtype = self._dt.get(c)
        return s

    def _assign_from(self, other):
        """in-place replace the contents by those of `other` (for inplace=True ops)."""
        object.__setattr__(self, "_data", other._data)
        object.__setattr__(self, "_dt", other._dt)
        object.__setattr__(self, "index", other.index)
        object.__setattr__(self, "_colnames", other._colnames)

    def _take(self, pos):
        pos = list(pos)
        iv = self.index._vals
        return DataFrame._from_cols({c: [v[i] for i in pos] for c, v in self._data.items()},
                                    type(self.index)([iv[i] for i in pos], name=self.index.name,
                                                     names=self.index._names) if type(self.index) is not Index else
                                    Index([iv[i] for i in pos], name=self.index.name, names=self.index._names),
                                    dict(self._dt), self._colnames)

    def _mask_positions(self, mask):
        mv = _mask_cells(mask, self.index)
        if len(mv) != len(self.index):
            raise ValueError("Item wrong length %d instead of %d." % (len(mv), len(self.index)))
        return [i for i, m in enumerate(mv) if truth(m)]

    def _label_positions(self, labels):
        """positions of the rows carrying each label (label order, duplicates expanded)."""
        iv = self.index._vals
        labels = list(labels)
        if all_concrete(iv) and all_concrete(labels):
            d = {}
            for i, k in enumerate(iv):
                d.setdefault(hashable_key(k), []).append(i)
            pos = []
            for k in labels:
                p = d.get(hashable_key(k))
                if p is None:
                    raise KeyError(k)
                pos.extend(p)
            return pos
        pos = []
        for k in labels:
            p = self.index.positions(k)
            if not p:
                raise KeyError(k)
            pos.extend(p)
        return pos

    # -- __getitem__ / __setitem__ ---------------------------------------------
    def __getitem__(self, k):
        if isinstance(k, DataFrame):
            raise E.Unsupported("df[df_mask]")
        if isinstance(k, slice):
            return self._take(range(len(self.index))[k])
        if _is_mask(k):
            return self._take(self._mask_positions(k))
        if isinstance(k, (list, Index, np.ndarray, Series)) or (isinstance(k, tuple) is False and _is_listlike(k)):
            names = list(np._cells(k) if np._cells(k) is not None else k)
            for c in names:
                if c not in self._data:
                    raise KeyError(f"{c!r} not in index")
            return DataFrame._from_cols({c: list(self._data[c]) for c in names}, self.index.copy(),
                                        {c: self._dt.get(c) for c in names})
        if k not in self._data:
            if isinstance(k, str) and self._data and all(isinstance(c, tuple) for c in self._data):
                sub = {c[1] if len(c) == 2 else c[1:]: list(v) for c, v in self._data.items() if c[0] == k}
                if sub:
                    return DataFrame._from_cols(sub, self.index.copy())
            raise KeyError(k)
        return self._col(k)

    def __setitem__(self, k, v):
        n = len(self.index)
        if _is_mask(k) and not isinstance(k, str):
            pos = self._mask_positions(k)
            for c in self._data:
                for i in pos:
                    self._data[c][i] = v
            return
        if isinstance(k, list):
            if isinstance(v, DataFrame):
                for c, vc in zip(k, list(v._data)):
                    self[c] = v[vc]
            else:
                for c in k:
                    self[c] = v
            return
        if isinstance(v, DataFrame):
            if len(v._data) != 1:
                raise ValueError("Cannot set a DataFrame with multiple columns to the single column " + str(k))
            v = v[list(v._data)[0]]
        dt = None
        if isinstance(v, Series):
            if not self._data and n == 0:
                object.__setattr__(self, "index", v.index.copy())
                vals = list(v._vals)
            else:
                vals = list(v._aligned_to(self.index))
            dt = v._dtype if (v._dtype in _STICKY or v._dtype in ("int8", "int16", "int32")) else None
        elif isinstance(v, Index):
            vals = list(v._vals)
        elif isinstance(v, (str, bytes, dict)) or not _is_listlike(v):
            vals = [v] * n
        else:
            vals = list(np._cells(v) if np._cells(v) is not None else v)
            if not self._data and n == 0:
                object.__setattr__(self, "index", default_index(len(vals)))
            elif len(vals) != n:
                raise ValueError(f"Length of values ({len(vals)}) does not match length of index ({n})")
        self._data[k] = vals
        self._dt[k] = dt

    def __delitem__(self, k):
        del self._data[k]
        self._dt.pop(k, None)

    def pop(self, k):
        s = self._col(k)
        del self[k]
        return s

    def insert(self, loc, column, value, allow_duplicates=False):
        if column in self._data:
            raise ValueError(f"cannot insert {column}, already exists")
        self[column] = value
        names = list(self._data)
        names.remove(column)
        names.insert(loc, column)
        object.__setattr__(self, "_data", {c: self._data[c] for c in names})

    def get(self, k, default=None):
        return self[k] if k in self._data else default

    def assign(self, **kw):
        r = self.copy()
        for k, v in kw.items():
            r[k] = v(r) if callable(v) else v
        return r

    def head(self, n=5):
        return self._take(range(len(self.index))[:n])

    def tail(self, n=5):
        return self._take(range(len(self.index))[-n:] if n else [])

    def squeeze(self, axis=None):
        if len(self.index) == 1 and len(self._data) == 1:
            return next(iter(self._data.values()))[0]
        if len(self.index) == 1:
            return self._row(0)
        if len(self._data) == 1:
            return self._col(next(iter(self._data)))
        return self

    # -- iteration ------------------------------------------------------------------
    def _row(self, i, cols=None):
        cols = cols or list(self._data)
        return Series([self._data[c][i] for c in cols], index=Index(cols), name=self.index._vals[i])

    def iterrows(self):
        for i in range(len(self.index)):
            yield self.index._vals[i], self._row(i)

    def itertuples(self, index=True, name="Pandas"):
        from collections import namedtuple
        cols = list(self._data)
        fields = (["Index"] if index else []) + [c if isinstance(c, str) and c.isidentifier() and not c.startswith("_")
                                                  else f"_{j + (1 if index else 0)}" for j, c in enumerate(cols)]
        T = namedtuple(name or "Pandas", fields, rename=True)
        for i in range(len(self.index)):
            vals = ([self.index._vals[i]] if index else []) + [self._data[c][i] for c in cols]
            yield T(*vals)

    def items(self):
        for c in list(self._data):
            yield c, self._col(c)

    def to_numpy(self, dtype=None, copy=False):
        rows = [[self._data[c][i] for c in self._data] for i in range(len(self.index))]
        dn = {self._dt.get(c) or infer_dtype(v) for c, v in self._data.items()}
        if len(dn) == 1:
            d = dn.pop()
        elif dn <= {"int64", "float64", "bool"} and "bool" not in dn:
            d = "float64"
        else:
            d = "object"
        a = np.ndarray(rows, d)
        a._dtype = d
        return a

    def to_dict(self, orient="dict", **kw):
        cols = list(self._data)
        if orient in ("records", "record"):
            return [{c: self._data[c][i] for c in cols} for i in range(len(self.index))]
        if orient == "list":
            return {c: list(self._data[c]) for c in cols}
        if orient == "index":
            return {self.index._vals[i]: {c: self._data[c][i] for c in cols} for i in range(len(self.index))}
        return {c: dict(zip(self.index._vals, self._data[c])) for c in cols}

    def to_records(self, index=True):
        raise E.Unsupported("to_records")

    # -- reshaping ---------------------------------------------------------------------
    def rename(self, mapper=None, index=None, columns=None, axis=None, inplace=False, errors="ignore", **kw):
        if mapper is not None:
            if axis in (1, "columns"):
                columns = mapper
            else:
                index = mapper
        r = self.copy()
        if columns is not None:
            f = (lambda c: columns.get(c, c)) if isinstance(columns, dict) else columns
            names = [f(c) for c in r._data]
            r._set_columns(names)
        if index is not None:
            f = (lambda c: index.get(c, c)) if isinstance(index, dict) else index
            r.index = Index([f(hashable_key(c)) if all_concrete([c]) else c for c in r.index._vals],
                            name=r.index.name, names=r.index._names)
        if inplace:
            self._assign_from(r)
            return None
        return r

    def drop(self, labels=None, axis=0, index=None, columns=None, inplace=False, errors="raise", level=None):
        if level is not None:
            raise E.Unsupported("drop: argument value outside the modelled subset")
        if labels is not None and (index is not None or columns is not None):
            raise ValueError("Cannot specify both 'labels' and 'index'/'columns'")
        if columns is not None and axis not in (0,) and axis is not None:
            # pandas >= 3: `axis` may not be combined with index=/columns=
            raise ValueError("Cannot specify both 'axis' and 'index'/'columns'")
        if labels is not None:
            if axis in (1, "columns"):
                columns = labels
            else:
                index = labels
        r = self.copy()
        if columns is not None:
            cc = list(columns) if _is_listlike(columns) else [columns]
            for c in cc:
                if c not in r._data:
                    if errors == "raise":
                        raise KeyError(f"{[c]} not found in axis")
                    continue
                del r._data[c]
                r._dt.pop(c, None)
        if index is not None:
            ll = list(np._cells(index) if np._cells(index) is not None else index) if _is_listlike(index) else [index]
            keep = [i for i, k in enumerate(r.index._vals) if not any(same_label(k, x) for x in ll)]
            if errors == "raise":
                for x in ll:
                    if not any(same_label(k, x) for k in r.index._vals):
                        raise KeyError(f"{[x]} not found in axis")
            r = r._take(keep)
        if inplace:
            self._assign_from(r)
            return None
        return r

    def dropna(self, axis=0, how="any", subset=None, inplace=False, **kw):
        if axis not in (0, "index"):
            raise E.Unsupported("dropna: argument value outside the modelled subset")
        cols = list(subset) if subset is not None else list(self._data)
        for c in cols:
            if c not in self._data:
                raise KeyError([c])
        if how == "any":
            keep = [i for i in range(len(self.index)) if not any(is_na(self._data[c][i]) for c in cols)]
        else:
            keep = [i for i in range(len(self.index)) if not all(is_na(self._data[c][i]) for c in cols)]
        r = self._take(keep)
        if inplace:
            self._assign_from(r)
            return None
        return r

    def fillna(self, value=None, inplace=False, **kw):
        r = self.copy()
        for c in r._data:
            if isinstance(value, dict):
                if c not in value:
                    continue
                fv = value[c]
            else:
                fv = value
            r._data[c] = [fv if is_na(v) else v for v in r._data[c]]
            if r._dt.get(c) not in _STICKY:
                r._dt[c] = None
        if inplace:
            self._assign_from(r)
            return None
        return r

    def isna(self):
        return DataFrame._from_cols({c: [is_na(v) for v in vs] for c, vs in self._data.items()}, self.index.copy())

    isnull = isna

    def replace(self, to_replace=None, value=None, inplace=False, **kw):
        r = self.copy()
        for c in list(r._data):
            s = r._col(c).replace(to_replace, value)
            r._data[c], r._dt[c] = s._vals, s._dtype
        if inplace:
            self._assign_from(r)
            return None
        return r

    def astype(self, t, **kw):
        r = self.copy()
        for c in list(r._data):
            tt = t.get(c) if isinstance(t, dict) else t
            if tt is None:
                continue
            s = r._col(c).astype(tt)
            r._data[c], r._dt[c] = s._vals, s._dtype
        return r

    def infer_objects(self, copy=None):
        r = self.copy()
        for c in r._dt:
            if r._dt[c] == "object":
                r._dt[c] = None
        return r

    def round(self, decimals=0, **kw):
        r = self.copy()
        for c in r._data:
            d = decimals.get(c) if isinstance(decimals, dict) else decimals
            if d is None or (r._dt.get(c) or infer_dtype(r._data[c])) not in ("float64", "int64"):
                continue
            r._data[c] = [v if is_na(v) else _round_cell(v, d) for v in r._data[c]]
        return r

    def __round__(self, n=0):
        return self.round(n)

    def reset_index(self, level=None, drop=False, inplace=False, names=None, **kw):
        if level is not None:
            raise E.Unsupported("reset_index: argument value outside the modelled subset")
        r = self.copy()
        if not drop:
            inames = self.index.names
            if names is not None:
                inames = [names] if isinstance(names, str) else list(names)
            new = {}
            for j, nm in enumerate(inames):
                if nm is None:
                    nm = "index" if len(inames) == 1 and "index" not in self._data else f"level_{j}"
                if nm in self._data:
                    raise ValueError(f"cannot insert {nm}, already exists")
                new[nm] = [v[j] for v in self.index._vals] if len(inames) > 1 else list(self.index._vals)
            new.update(r._data)
            object.__setattr__(r, "_data", new)
        object.__setattr__(r, "index", default_index(len(self.index)))
        if inplace:
            self._assign_from(r)
            return None
        return r

    def set_index(self, keys, drop=True, inplace=False, append=False, **kw):
        if append:
            raise E.Unsupported("set_index: argument value outside the modelled subset")
        r = self.copy()
        if isinstance(keys, Index):
            r.index = keys.copy()
        elif isinstance(keys, (Series, np.ndarray)):
            r.index = Index(list(np._cells(keys)), name=getattr(keys, "name", None))
        else:
            kk = keys if isinstance(keys, list) else [keys]
            for c in kk:
                if c not in r._data:
                    raise KeyError(f"None of {kk} are in the columns")
            if len(kk) == 1:
                idx = Index(list(r._data[kk[0]]), name=kk[0])
            else:
                idx = MultiIndex([tuple(r._data[c][i] for c in kk) for i in range(len(r.index))], names=kk)
            if drop:
                for c in kk:
                    del r._data[c]
                    r._dt.pop(c, None)
            object.__setattr__(r, "index", idx)
        if inplace:
            self._assign_from(r)
            return None
        return r

    def reindex(self, index=None, columns=None, fill_value=NAN, **kw):
        r = self
        if index is not None:
            idx = index if isinstance(index, Index) else Index(index)
            cols = {c: [] for c in self._data}
            for k in idx._vals:
                p = self.index.positions(k)
                for c in cols:
                    cols[c].append(self._data[c][p[0]] if p else fill_value)
            r = DataFrame._from_cols(cols, idx, dict(self._dt))
        if columns is not None:
            r = DataFrame._from_cols({c: list(r._data[c]) if c in r._data else [fill_value] * len(r.index)
                                      for c in columns}, r.index.copy(), dict(r._dt))
        return r

    def sort_values(self, by, axis=0, ascending=True, inplace=False, kind="quicksort", na_position="last",
                    ignore_index=False, key=None):
        if axis not in (0, "index") or na_position != "last" or key is not None:
            raise E.Unsupported("sort_values: argument value outside the modelled subset")
        bb = by if isinstance(by, list) else [by]
        keycols = []
        for c in bb:
            if c in self._data:
                keycols.append(self._data[c])
            elif c in self.index.names:
                keycols.append(self.index.get_level_values(c)._vals if self.index.nlevels > 1 else self.index._vals)
            else:
                raise KeyError(c)
        # a single key with the default kind goes through numpy's unstable argsort;
        # multi-key sorts use lexsort (stable)
        stable = len(bb) > 1 or kind in ("stable", "mergesort")
        order = sort_positions(keycols, ascending, stable=stable)
        r = self._take(order)
        if ignore_index:
            object.__setattr__(r, "index", default_index(len(order)))
        if inplace:
            self._assign_from(r)
            return None
        return r

    def sort_index(self, axis=0, ascending=True, inplace=False, **kw):
        if self.index.nlevels > 1:
            keycols = [[v[j] for v in self.index._vals] for j in range(self.index.nlevels)]
        else:
            keycols = [self.index._vals]
        r = self._take(sort_positions(keycols, ascending, stable=True))
        if inplace:
            self._assign_from(r)
            return None
        return r

    def drop_duplicates(self, subset=None, keep="first", inplace=False, ignore_index=False):
        if keep != "first":
            raise E.Unsupported("drop_duplicates: argument value outside the modelled subset")
        cols = ([subset] if isinstance(subset, str) else list(subset)) if subset is not None else list(self._data)
        seen, pos = [], []
        for i in range(len(self.index)):
            key = tuple(self._data[c][i] for c in cols)
            if not any(same_label(key, s) for s in seen):
                seen.append(key)
                pos.append(i)
        r = self._take(pos)
        if ignore_index:
            object.__setattr__(r, "index", default_index(len(pos)))
        if inplace:
            self._assign_from(r)
            return None
        return r

    def nlargest(self, n, columns, keep="first"):
        if keep != "first":
            raise E.Unsupported("nlargest: argument value outside the modelled subset")
        cols = columns if isinstance(columns, list) else [columns]
        order = sort_positions([self._data[c] for c in cols], False, stable=True)
        return self._take(order[:n])

    def nsmallest(self, n, columns, keep="first"):
        if keep != "first":
            raise E.Unsupported("nsmallest: argument value outside the modelled subset")
        cols = columns if isinstance(columns, list) else [columns]
        order = sort_positions([self._data[c] for c in cols], True, stable=True)
        return self._take(order[:n])

    def rank(self, **kw):
        r = self.copy()
        for c in list(r._data):
            r._data[c] = r._col(c).rank(**kw)._vals
            r._dt[c] = None
        return r

    def cumsum(self, **kw):
        r = self.copy()
        for c in list(r._data):
            r._data[c] = r._col(c).cumsum()._vals
        return r

    def abs(self):
        return self.map(lambda v: v if is_na(v) else abs(v))

    def duplicated(self, subset=None, keep="first"):
        if keep != "first":
            raise E.Unsupported("duplicated: argument value outside the modelled subset")
        cols = ([subset] if isinstance(subset, str) else list(subset)) if subset is not None else list(self._data)
        seen, out = [], []
        for i in range(len(self.index)):
            key = tuple(self._data[c][i] for c in cols)
            d = any(same_label(key, s) for s in seen)
            out.append(d)
            if not d:
                seen.append(key)
        return Series(out, index=self.index.copy())

    def melt(self, id_vars=None, value_vars=None, var_name=None, value_name="value", ignore_index=True):
        if ignore_index is not True:
            raise E.Unsupported("melt: argument value outside the modelled subset")
        idv = ([id_vars] if isinstance(id_vars, str) else list(id_vars)) if id_vars is not None else []
        vv = ([value_vars] if isinstance(value_vars, str) else list(value_vars)) if value_vars is not None else [
            c for c in self._data if c not in idv]
        var_name = var_name if var_name is not None else "variable"
        out = {c: [] for c in idv}
        out[var_name], out[value_name] = [], []
        for c in vv:
            for i in range(len(self.index)):
                for d in idv:
                    out[d].append(self._data[d][i])
                out[var_name].append(c)
                out[value_name].append(self._data[c][i])
        return DataFrame._from_cols(out, default_index(len(out[value_name])))

    def explode(self, column, ignore_index=False):
        pos, vals = [], []
        for i, v in enumerate(self._data[column]):
            if isinstance(v, (list, tuple, np.ndarray)) and len(v) > 0:
                for x in v:
                    pos.append(i)
                    vals.append(x)
            else:
                pos.append(i)
                vals.append(NAN if isinstance(v, (list, tuple, np.ndarray)) else v)
        r = self._take(pos)
        r._data[column] = vals
        r._dt[column] = None
        if ignore_index:
            object.__setattr__(r, "index", default_index(len(pos)))
        return r

    def apply(self, f, axis=0, args=(), result_type=None, **kw):
        if axis in (1, "columns"):
            cols = list(self._data)
            out = [f(self._row(i, cols), *args, **kw) for i in range(len(self.index))]
            if out and all(isinstance(o, Series) for o in out):
                names = list(out[0].index._vals)
                return DataFrame._from_cols({c: [o._vals[j] for o in out] for j, c in enumerate(names)},
                                            self.index.copy())
            return Series(out, index=self.index.copy())
        res = {c: f(self._col(c), *args, **kw) for c in self._data}
        if res and all(isinstance(v, Series) for v in res.values()):
            return DataFrame(res)
        return Series(list(res.values()), index=Index(list(res.keys())))

    def map(self, f):
        return DataFrame._from_cols({c: [f(v) for v in vs] for c, vs in self._data.items()}, self.index.copy())

    applymap = map

    def shift(self, periods=1, fill_value=NAN):
        r = self.copy()
        for c in list(r._data):
            s = r._col(c).shift(periods, fill_value)
            r._data[c], r._dt[c] = s._vals, s._dtype
        return r

    def isin(self, values):
        vv = list(values)
        return DataFrame._from_cols({c: [E.sor(*[C_EQ(v, x) for x in vv]) for v in vs]
                                     for c, vs in self._data.items()}, self.index.copy())

    # -- reductions ---------------------------------------------------------------------
    def _reduce(self, name, **kw):
        return Series([getattr(self._col(c), name)(**kw) for c in self._data], index=Index(list(self._data)))

    def sum(self, axis=0, **kw):
        if axis in (1, "columns"):
            out = []
            for i in range(len(self.index)):
                acc = 0
                for c in self._data:
                    v = self._data[c][i]
                    if not is_na(v):
                        acc = acc + v
                out.append(acc)
            return Series(out, index=self.index.copy())
        return self._reduce("sum")

    def min(self, axis=0, **kw):
        if axis not in (0, "index", None):
            raise E.Unsupported("min: argument value outside the modelled subset")
        return self._reduce("min")

    def max(self, axis=0, **kw):
        if axis not in (0, "index", None):
            raise E.Unsupported("max: argument value outside the modelled subset")
        return self._reduce("max")

    def mean(self, axis=0, **kw):
        if axis not in (0, "index", None):
            raise E.Unsupported("mean: argument value outside the modelled subset")
        return self._reduce("mean")

    def count(self, axis=0, **kw):
        if axis not in (0, "index", None):
            raise E.Unsupported("count: argument value outside the modelled subset")
        return self._reduce("count")

    def all(self, axis=0, **kw):
        if axis not in (0, "index", None):
            raise E.Unsupported("all: argument value outside the modelled subset")
        return self._reduce("all")

    def any(self, axis=0, **kw):
        if axis not in (0, "index", None):
            raise E.Unsupported("any: argument value outside the modelled subset")
        return self._reduce("any")

    def nunique(self):
        return self._reduce("nunique")

    def describe(self, **kw):
        cols = [c for c in self._data if (self._dt.get(c) or infer_dtype(self._data[c])) in ("int64", "float64")]
        d = {c: self._col(c).describe() for c in cols}
        return DataFrame(d)

    def equals(self, o):
        if not isinstance(o, DataFrame) or list(o._data) != list(self._data) or len(o) != len(self):
            return False
        if not self.index.equals(o.index):
            return False
        return all(same_label(a, b) for c in self._data for a, b in zip(self._data[c], o._data[c]))

    # -- elementwise frame arithmetic ----------------------------------------------------
    def _ew(self, o, opname):
        r = {}
        for c in self._data:
            oc = o[c] if isinstance(o, DataFrame) else (o[c] if isinstance(o, dict) else o)
            if isinstance(o, Series):
                oc = o.get(c, NAN)
            s = getattr(self._col(c), opname)(oc)
            r[c] = s._vals
        return DataFrame._from_cols(r, self.index.copy())

    def __add__(self, o): return self._ew(o, "__add__")
    def __sub__(self, o): return self._ew(o, "__sub__")
    def __mul__(self, o): return self._ew(o, "__mul__")
    def __truediv__(self, o): return self._ew(o, "__truediv__")
    def __eq__(self, o): return self._ew(o, "__eq__")
    def __ne__(self, o): return self._ew(o, "__ne__")
    def __lt__(self, o): return self._ew(o, "__lt__")
    def __le__(self, o): return self._ew(o, "__le__")
    def __gt__(self, o): return self._ew(o, "__gt__")
    def __ge__(self, o): return self._ew(o, "__ge__")

    # -- delegating to pdops ----------------------------------------------------------------
    def groupby(self, by=None, axis=0, level=None, as_index=True, sort=True, dropna=True, **kw):
        from .pdops import GroupBy
        if by is None and level is not None:
            by = self.index.names[level] if isinstance(level, int) else level
        if isinstance(by, Series):
            tmp = self.copy()
            tmp["__key"] = by
            return GroupBy(tmp, ["__key"], as_index=as_index, sort=sort, dropna=dropna, hide=["__key"])
        return GroupBy(self, by if isinstance(by, list) else [by], as_index=as_index, sort=sort, dropna=dropna)

    def merge(self, right, how="inner", on=None, left_on=None, right_on=None, left_index=False, right_index=False,
              sort=False, suffixes=("_x", "_y"), validate=None, **kw):
        from .pdops import merge
        return merge(self, right, how=how, on=on, left_on=left_on, right_on=right_on, left_index=left_index,
                     right_index=right_index, sort=sort, suffixes=suffixes, validate=validate)

    def join(self, other, on=None, how="left", lsuffix="", rsuffix="", sort=False, **kw):
        from .pdops import join
        return join(self, other, on=on, how=how, lsuffix=lsuffix, rsuffix=rsuffix)

    def query(self, expr, inplace=False, local_dict=None, **kw):
        from .pdops import eval_query
        import sys
        fr = sys._getframe(1)
        env = dict(fr.f_globals)
        env.update(fr.f_locals)
        if local_dict:
            env.update(local_dict)
        mask = eval_query(self, expr, env)
        r = self[mask]
        if inplace:
            self._assign_from(r)
            return None
        return r

    def eval(self, expr, **kw):
        from .pdops import eval_query
        return eval_query(self, expr, {})

    def to_csv(self, *a, **k):
        raise E.Unsupported("to_csv (I/O)")

    def to_json(self, *a, **k):
        raise E.Unsupported("to_json (I/O)")


# -- loc / iloc -----------------------------------------------------------------------

def _is_scalar_label(k):
    return not _is_listlike(k) and not isinstance(k, slice) and not callable(k)


class _Loc:
    def __init__(self, df):
        self.df = df

    def _rows(self, rk):
        df = self.df
        if callable(rk):
            rk = rk(df)
        if isinstance(rk, slice):
            if rk.start is None and rk.stop is None:
                return list(range(len(df.index)))[:: rk.step or 1], False
            iv = df.index._vals
            start = 0 if rk.start is None else df.index.positions(rk.start)[0]
            stop = len(iv) - 1 if rk.stop is None else df.index.positions(rk.stop)[-1]
            return list(range(start, stop + 1)), False
        if _is_mask(rk):
            return df._mask_positions(rk), False
        if isinstance(rk, tuple) and df.index.nlevels > 1:
            p = df.index.positions(rk)
            if not p:
                raise KeyError(rk)
            return p, len(p) == 1
        if _is_listlike(rk):
            labels = list(np._cells(rk) if np._cells(rk) is not None else rk)
            return df._label_positions(labels), False
        p = df._label_positions([rk])
        return p, len(p) == 1

    def __getitem__(self, k):
        df = self.df
        rk, ck = (k if isinstance(k, tuple) and not (df.index.nlevels > 1 and len(k) == df.index.nlevels
                                                      and not _is_listlike(k[0]) and not isinstance(k[0], slice))
                  else (k, None)) if isinstance(k, tuple) else (k, None)
        if isinstance(k, tuple) and ck is None and rk is k:
            pass
        elif isinstance(k, tuple) and len(k) == 2:
            rk, ck = k
        pos, scalar_row = self._rows(rk)
        if ck is None:
            return df._row(pos[0]) if scalar_row else df._take(pos)
        if _is_mask(ck):
            names = [c for c, m in zip(df._data, np._cells(ck)) if m]
            ck = names
        if isinstance(ck, slice):
            names = list(df._data)
            a = 0 if ck.start is None else names.index(ck.start)
            b = len(names) - 1 if ck.stop is None else names.index(ck.stop)
            ck = names[a:b + 1]
        if _is_listlike(ck):
            sub = df[list(ck)]
            return sub._row(pos[0]) if scalar_row else sub._take(pos)
        if ck not in df._data:
            raise KeyError(ck)
        if scalar_row:
            return df._data[ck][pos[0]]
        return df._col(ck)._take(pos)

    def __setitem__(self, k, v):
        df = self.df
        if isinstance(k, tuple) and len(k) == 2:
            rk, ck = k
        else:
            rk, ck = k, None
        n0 = len(df.index)
        if _is_scalar_label(rk) and not (isinstance(rk, tuple)) and not df.index.positions(rk):
            # enlargement
            df.index._vals.append(rk)
            for c in df._data:
                df._data[c].append(NAN)
            pos = [n0]
        else:
            pos, _ = self._rows(rk)
        if ck is None:
            cols = list(df._data)
        elif isinstance(ck, slice):
            cols = list(df._data)
        elif _is_listlike(ck):
            cols = list(ck)
        else:
            cols = [ck]
        for c in cols:
            if c not in df._data:
                df._data[c] = [NAN] * len(df.index)
                df._dt[c] = None
        if isinstance(v, DataFrame):
            for c, vc in zip(cols, list(v._data)):
                vv = v._col(vc)._aligned_to(Index([df.index._vals[i] for i in pos]))
                for j, i in enumerate(pos):
                    df._data[c][i] = vv[j]
        elif isinstance(v, Series):
            if len(cols) > 1 and not _is_listlike(rk) and not _is_mask(rk):
                for c in cols:
                    for i in pos:
                        df._data[c][i] = v.get(c, NAN)
            else:
                sub_idx = Index([df.index._vals[i] for i in pos])
                vv = v._aligned_to(sub_idx)
                for c in cols:
                    for j, i in enumerate(pos):
                        df._data[c][i] = vv[j]
        elif isinstance(v, (str, bytes, dict)) or not _is_listlike(v):
            for c in cols:
                for i in pos:
                    df._data[c][i] = v
        else:
            vv = list(np._cells(v) if np._cells(v) is not None else v)
            if len(cols) > 1 and len(vv) == len(cols) and len(pos) != len(vv):
                for c, x in zip(cols, vv):
                    for i in pos:
                        df._data[c][i] = x
            else:
                if len(vv) != len(pos):
                    if len(vv) == 1:
                        vv = vv * len(pos)
                    else:
                        raise ValueError("Must have equal len keys and value when setting with an iterable")
                for c in cols:
                    for j, i in enumerate(pos):
                        df._data[c][i] = vv[j]
        for c in cols:
            if df._dt.get(c) in INT_BITS:
                # pandas 3.0 / numpy 2: setting into a narrow integer column keeps the dtype; an integer *array* (list,
                # ndarray, Series) must have a dtype that casts safely into the column's (checked by dtype, not by
                # value), a scalar must fit by value; otherwise TypeError("Invalid value ... for dtype ...")
                bits = INT_BITS[df._dt[c]]
                src = None
                if isinstance(v, (Series, np.ndarray)):
                    src = v._dtype or getattr(v.dtype, "name", None)
                elif isinstance(v, DataFrame):
                    src = None
                elif _is_listlike(v) and not isinstance(v, (str, bytes, dict)):
                    src = "int64" if all(isinstance(x, int) and not isinstance(x, bool) for x in v) else None
                if src is not None and str(src).startswith("int"):
                    if INT_BITS.get(str(src), 64) > bits:
                        raise TypeError(f"Invalid value '{[df._data[c][i] for i in pos]}' for dtype '{df._dt[c]}'")
                    continue
                keep = src is None and not _is_listlike(v)
                if isinstance(v, int) and not isinstance(v, bool) and not (-(1 << (bits - 1)) <= v < (1 << (bits - 1))):
                    raise TypeError(f"Invalid value '{v}' for dtype '{df._dt[c]}'")      # also with no row selected
                for i in pos:
                    x = df._data[c][i]
                    if isinstance(x, bool) or isinstance(x, str):
                        raise TypeError(f"Invalid value '{x}' for dtype '{df._dt[c]}'")
                    if is_na(x) or isinstance(x, float):
                        keep = False
                    elif isinstance(x, int) and not (-(1 << (bits - 1)) <= x < (1 << (bits - 1))):
                        raise TypeError(f"Invalid value '{x}' for dtype '{df._dt[c]}'")
                    elif not isinstance(x, int):
                        keep = False        # symbolic scalar: width undecided, fall back to inference (int64)
                if keep:
                    continue
            if df._dt.get(c) not in _STICKY:
                df._dt[c] = None
            elif df._dt.get(c) == "str" and not all(isinstance(x, str) or is_na(x) for x in df._data[c]):
                df._dt[c] = "object"


class _ILoc:
    def __init__(self, df):
        self.df = df

    def _pos(self, k, n):
        if isinstance(k, slice):
            return list(range(n))[k], False
        if _is_mask(k):
            return [i for i, m in enumerate(np._cells(k)) if truth(m)], False
        if _is_listlike(k):
            return [np._idx(i) for i in (np._cells(k) if np._cells(k) is not None else k)], False
        i = np._idx(k)
        if i < 0:
            i += n
        if not 0 <= i < n:
            raise IndexError("single positional indexer is out-of-bounds")
        return [i], True

    def __getitem__(self, k):
        df = self.df
        rk, ck = k if isinstance(k, tuple) else (k, None)
        pos, scalar = self._pos(rk, len(df.index))
        if ck is None:
            return df._row(pos[0]) if scalar else df._take(pos)
        names = list(df._data)
        cpos, cscalar = self._pos(ck, len(names))
        if cscalar:
            c = names[cpos[0]]
            return df._data[c][pos[0]] if scalar else df._col(c)._take(pos)
        sub = df[[names[j] for j in cpos]]
        return sub._row(pos[0]) if scalar else sub._take(pos)

    def __setitem__(self, k, v):
        df = self.df
        rk, ck = k if isinstance(k, tuple) else (k, None)
        pos, _ = self._pos(rk, len(df.index))
        names = list(df._data)
        cols = names if ck is None else [names[j] for j in self._pos(ck, len(names))[0]]
        vv = np._cells(v)
        for c in cols:
            for j, i in enumerate(pos):
                df._data[c][i] = vv[j] if vv is not None else v
            if df._dt.get(c) not in _STICKY:
                df._dt[c] = None
