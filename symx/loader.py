"""Import the real /repo/hta modules with pandas/numpy/plotly bound to the symbolic model."""
from __future__ import annotations

import builtins
import importlib
import sys
import types

from .engine import REPO  # noqa: E402
_SAVED = {}
_HTA = {}


class _Dummy(types.ModuleType):
    def __getattr__(self, n):
        if n.startswith("__"):
            raise AttributeError(n)
        m = _Dummy(self.__name__ + "." + n)
        setattr(self, n, m)
        return m

    def __call__(self, *a, **k):
        return self


def _stub_modules():
    from . import sympd, symnp
    mods = {"pandas": sympd, "numpy": symnp}
    for n in ("plotly", "plotly.express", "plotly.graph_objects", "plotly.subplots", "plotly.io", "psutil"):
        mods[n] = _Dummy(n)
    mods["plotly.subplots"].make_subplots = lambda *a, **k: _Dummy("fig")
    return mods


def load(names):
    """Import hta modules (list of dotted names) under the substitution; returns dict name -> module.

    Real numpy/pandas/networkx are imported first (so that networkx keeps the real numpy), then
    sys.modules is switched for the duration of the hta imports and restored afterwards."""
    import networkx  # noqa: F401  real, pure Python
    import yaml  # noqa: F401
    if REPO not in sys.path:
        sys.path.insert(0, REPO)
    stubs = _stub_modules()
    saved = {n: sys.modules.get(n) for n in stubs}
    # drop any real hta modules imported earlier in this process
    for n in [m for m in sys.modules if m == "hta" or m.startswith("hta.")]:
        if n not in _HTA:
            del sys.modules[n]
    sys.modules.update(stubs)
    try:
        out = {}
        for n in names:
            out[n] = importlib.import_module(n)
        for n, m in sys.modules.items():
            if n == "hta" or n.startswith("hta."):
                _HTA[n] = m
    finally:
        for n, m in saved.items():
            if m is None:
                sys.modules.pop(n, None)
            else:
                sys.modules[n] = m
    for m in _HTA.values():
        if m is not None:
            shadow_builtins(m)
    import logging
    logging.getLogger("hta").setLevel(logging.CRITICAL)
    logging.disable(logging.CRITICAL)
    out.update({n: m for n, m in _HTA.items() if m is not None})
    return out


# ---------------------------------------------------------------------------
# sort-aware builtins shadowed in every hta module's globals (trusted base)
# ---------------------------------------------------------------------------
SHADOWED = ("int", "float", "round", "min", "max", "sum")


def shadow_builtins(mod):
    from . import engine as E

    class _IntMeta(type):
        def __instancecheck__(cls, x):
            return builtins.isinstance(x, (builtins.int, E.SInt, E.SBool))

        def __subclasscheck__(cls, c):
            return builtins.issubclass(c, builtins.int)

    class s_int(builtins.int, metaclass=_IntMeta):
        def __new__(cls, x=0, *a):
            if builtins.isinstance(x, E.SVal):
                return E.sint(x)
            return builtins.int(x, *a)

    class _FloatMeta(type):
        def __instancecheck__(cls, x):
            return builtins.isinstance(x, (builtins.float, E.SReal))

        def __subclasscheck__(cls, c):
            return builtins.issubclass(c, builtins.float)

    class s_float(builtins.float, metaclass=_FloatMeta):
        def __new__(cls, x=0.0):
            if builtins.isinstance(x, E.SVal):
                return E.sfloat(x)
            return builtins.float(x)

    def s_round(x, n=None):
        if isinstance(x, E.SVal):
            return E.sround(x, n)
        return builtins.round(x, n) if n is not None else builtins.round(x)

    def s_abs(x):
        return abs(x)

    def _mm(f2, fb):
        def g(*args, **kw):
            if len(args) == 1:
                items = list(args[0])
            else:
                items = list(args)
            key = kw.get("key")
            if key is None and any(isinstance(v, E.SVal) for v in items):
                acc = items[0]
                for v in items[1:]:
                    acc = f2(acc, v)
                return acc
            if not items and "default" in kw:
                return kw["default"]
            return fb(items, **{k: v for k, v in kw.items() if k != "default"})
        return g

    def s_sum(it, start=0):
        acc = start
        for v in it:
            acc = acc + v
        return acc

    d = mod.__dict__
    d["int"] = s_int
    d["float"] = s_float
    d["round"] = s_round
    d["min"] = _mm(E.smin, builtins.min)
    d["max"] = _mm(E.smax, builtins.max)
    d["sum"] = s_sum
