"""Check driver: parallel path exploration, counterexample replay, evidence, exit codes."""
from __future__ import annotations

import fnmatch
import hashlib
import importlib
import json
import multiprocessing as mp
import os
import signal
import subprocess
import sys
import time
import traceback

from .engine import REPO

VERIF = os.path.dirname(os.path.dirname(os.path.abspath(__file__)))
REPLAYS = os.path.join(VERIF, "replays")
# VERIF_ONLY=<regex>: development aid, explores only the matching skeletons and keeps the partial evidence out of /verif
# VERIF_EVIDENCE_DIR: used by bin/seedcheck.sh so that runs on a deliberately broken tree do not overwrite the evidence
EVID = os.environ.get("VERIF_EVIDENCE_DIR") or (
    os.path.join(VERIF, "evidence") if not os.environ.get("VERIF_ONLY") else "/tmp/verif-partial-evidence")
KNOWN = os.path.join(VERIF, "known_findings.json")
EXIT_HARNESS = 2


# ---------------------------------------------------------------------------
# the context handed to harness.run() in both worlds
# ---------------------------------------------------------------------------

class Ctx:
    mode = None

    def __init__(self, sk):
        self.sk = sk
        self.params = sk.get("params", {})
        self.failures = []

    def val(self, x):
        """placeholder -> value"""
        from . import tracegen as TG
        return TG.subst(x, self.env)

    def cells(self, obj):
        """list of cells of a Series / Index / array in either world."""
        if hasattr(obj, "tolist"):
            return obj.tolist()
        return list(obj)


class SymCtx(Ctx):
    mode = "sym"

    def __init__(self, sk, ex, mods):
        super().__init__(sk)
        from . import tracegen as TG
        self.ex, self.mods = ex, mods
        self.env = TG.sym_env(ex, sk)
        self.env.update({k: v for k, v in self.params.items() if not TG.is_var(v)})
        self.batch = []
        self.memo = _W.setdefault("memo", {}).setdefault(sk.get("id"), {})

    def cached(self, key, fn):
        """oracle terms depend on the skeleton's inputs only: built once per skeleton and worker."""
        if key not in self.memo:
            self.memo[key] = fn()
        return self.memo[key]

    def assume(self, c):
        self.ex.assume(c)

    def prove(self, c, label, detail=None):
        self.batch.append((c, label, detail))
        return True

    def flush(self):
        if self.batch:
            self.ex.prove_all(self.batch)
            self.batch = []

    def prove_ratio(self, p, num, den, label, detail=None, scale=100, places=2):
        """p must be round(scale*num/den, places).  Linear strong form first (numerator and denominator
        separately, via the value's provenance); only if that fails the exact cross-multiplied form."""
        from .engine import provenance, sand
        pv = provenance(p)
        if pv is not None and pv[0] == scale and pv[3] == places:
            if self.ex.holds(sand(pv[1] == num, pv[2] == den)):
                return self.prove(True, label, detail)
            return self.prove(pv[1] * den == num * pv[2], label, detail)
        half = 0.5 / (10 ** places)
        return self.prove(sand(p * den - scale * num <= half * den, scale * num - p * den <= half * den), label,
                             detail)

    def nontrivial(self, c=True):
        if not self.ex.notes.get("nontrivial") and self.ex.can(c):
            self.ex.notes["nontrivial"] = True

    def note(self, k, v=True):
        self.ex.notes[k] = v

    def open(self, ranks_events, **kw):
        from . import tracegen as TG
        return TG.open_symbolic(self.mods, ranks_events, **kw)

    def choose(self, n):
        return self.ex.choose(n)

    def choose_recorded(self, n):
        """nondeterministic choice that is part of the counterexample (replayed natively)"""
        k = self.ex.choose(n)
        if not hasattr(self.ex, "named_choices"):
            self.ex.named_choices = []
        self.ex.named_choices.append(k)
        return k


class NativeCtx(Ctx):
    mode = "native"

    def __init__(self, sk, model, outdir):
        super().__init__(sk)
        from . import tracegen as TG
        self.env = TG.model_env(sk, model)
        self.env.update({k: v for k, v in self.params.items() if not TG.is_var(v)})
        self.outdir = outdir
        self.assume_failed = []
        self.mods = None

    def cached(self, key, fn):
        return fn()

    def flush(self):
        pass

    def assume(self, c):
        if not bool(c):
            self.assume_failed.append(True)

    def prove(self, c, label, detail=None):
        ok = bool(c)
        if not ok:
            self.failures.append({"label": label, "detail": _js(detail)})
        return ok

    def nontrivial(self, c=True):
        pass

    def note(self, k, v=True):
        pass

    def open(self, ranks_events, **kw):
        from . import tracegen as TG
        kw.pop("use_multiprocessing", None)
        return TG.open_native(ranks_events, self.outdir, **kw)

    def choose(self, n):
        return 0

    def choose_recorded(self, n):
        ch = self.env.get("__choices__")
        if ch is None:
            return 0
        self._nchoice = getattr(self, "_nchoice", 0) + 1
        return ch[self._nchoice - 1] if self._nchoice <= len(ch) else 0


class ShimCtx(NativeCtx):
    """the harness run on the *model* (symbolic pandas) with concrete values: differential test of the model"""
    mode = "sym"

    def __init__(self, sk, model, outdir, mods):
        super().__init__(sk, model, outdir)
        self.mods = mods

    def open(self, ranks_events, **kw):
        from . import tracegen as TG
        return TG.open_symbolic(self.mods, ranks_events, **kw)

    def prove_ratio(self, p, num, den, label, detail=None, scale=100, places=2):
        half = 0.5 / (10 ** places)
        if den == 0:
            return True
        return self.prove(abs(p - scale * num / den) <= half + 1e-9, label, detail)


def _js(x):
    try:
        json.dumps(x)
        return x
    except Exception:
        return repr(x)


# ---------------------------------------------------------------------------
# worker side
# ---------------------------------------------------------------------------

_W = {}


def _worker_init(hname, qtimeout, audit_every=0):
    sys.setrecursionlimit(10000)
    _W["audit_every"] = audit_every
    from . import loader
    h = importlib.import_module(f"harness.{hname}")
    _W["h"] = h
    _W["mods"] = loader.load(h.MODULES)
    _W["qtimeout"] = qtimeout
    from . import pdcore
    pdcore.TIE_MODE["stable_funcs"] = set(getattr(h, "TIE_STABLE_FUNCS", ()))
    pdcore.TIE_MODE["mode"] = getattr(h, "TIE_MODE", "adversarial")
    pdcore.TIE_MODE["skip_funcs"] = set(getattr(h, "SORT_SKIP_FUNCS", ()))
    pdcore.TIE_MODE["max_run"] = getattr(h, "TIE_MAX_RUN", 4)
    if hasattr(h, "setup_worker"):
        h.setup_worker(_W["mods"])


def _profile_functions(fn):
    seen = set()

    def prof(frame, event, arg):
        if event == "call":
            co = frame.f_code
            if co.co_filename.startswith(REPO + "/hta/"):
                seen.add((co.co_filename, co.co_qualname))
    sys.setprofile(prof)
    try:
        fn()
    finally:
        sys.setprofile(None)
    return seen


def _job(args):
    sk_idx, sk, roots, max_paths, deadline, want_profile = args
    from . import engine as E
    h, mods = _W["h"], _W["mods"]
    ex = E.Explorer(query_timeout_ms=_W["qtimeout"])
    ex.audit_every = _W.get("audit_every", 0)
    out = {"sk": sk_idx, "refuted": [], "raised": [], "unsupported": [], "unknown": [], "samples": [],
           "nontrivial": 0, "functions": [], "tie_paths": 0}

    from . import pdcore
    from . import tracegen as TG
    base_mode = getattr(h, "TIE_MODE", "adversarial")

    def path_fn(ex_):
        pdcore.TIE_MODE["mode"] = sk.get("params", {}).get("tie_mode", base_mode)
        TG.reset_registry()
        ctx = SymCtx(sk, ex_, mods)
        # watchdog: a path that does not end (a changed tree may loop forever) becomes a raised path instead of a hung
        # check; the limit is far above the slowest legitimate path (long-trace families: ~40 s)
        limit = int(os.environ.get("VERIF_PATH_TIMEOUT", "150"))

        def _alarm(signum, frame):
            raise PathTimeout(f"path did not finish within {limit} s")
        old = signal.signal(signal.SIGALRM, _alarm)
        signal.alarm(limit)
        try:
            h.run(ctx)
            ctx.flush()
        finally:
            signal.alarm(0)
            signal.signal(signal.SIGALRM, old)

    out["witnesses"] = []
    every = {"n": 0}

    def on_path(p):
        every["n"] += 1
        ex.sample_witness = (every["n"] % 40 == 0)      # the next path keeps a witness for native validation
        if p.get("witness"):
            out["witnesses"].append({"model": p["witness"], "prefix": p["prefix"]})
        if p["notes"].get("nontrivial"):
            out["nontrivial"] += 1
        if p["ties"]:
            out["tie_paths"] += 1
        for label, verdict, info in p["results"]:
            if verdict == "refuted":
                out["refuted"].append({"label": label, "model": info["model"], "detail": _js(info["detail"]),
                                       "prefix": p["prefix"], "ties": p["ties"]})
            elif verdict == "unknown":
                out["unknown"].append({"label": label, "prefix": p["prefix"]})
        if p["status"] == "raised":
            out["raised"].append({"label": "raised:" + p["error"].split(":")[0], "error": p["error"],
                                  "tb": p.get("tb"), "model": p.get("model"), "prefix": p["prefix"],
                                  "ties": p["ties"]})
        elif p["status"] == "unsupported":
            out["unsupported"].append({"error": p["error"], "prefix": p["prefix"]})
        if len(out["samples"]) < 2 and p["status"] == "ok":
            out["samples"].append({"skeleton": sk.get("id"), "decisions": p["depth"],
                                   "obligations": [r[0] + ":" + r[1] for r in p["results"]][:12],
                                   "notes": p["notes"]})

    ex.sample_witness = True
    if want_profile:
        # one profiled run of the first root: which hta functions are executed
        box = {}

        def prof_run():
            box["p"] = ex.run_path(path_fn, list(roots[0]))
        fns = _profile_functions(prof_run)
        out["functions"] = sorted(fns)
        p = box["p"]
        on_path(p)
        rest, n = ex.explore(path_fn, roots=[tuple(x) for x in p["pending"]] + [tuple(r) for r in roots[1:]],
                             max_paths=max_paths - 1, deadline=deadline, on_path=on_path)
    else:
        rest, n = ex.explore(path_fn, roots=roots, max_paths=max_paths, deadline=deadline, on_path=on_path)
    out["leftover"] = rest
    out["stats"] = ex.stats.as_dict()
    out["audit"] = getattr(ex, "audit", None)
    return out


# ---------------------------------------------------------------------------
# native replay (fresh interpreter, real pandas)
# ---------------------------------------------------------------------------

class PathTimeout(Exception):
    """a symbolic path exceeded the watchdog limit (non-termination in the code under test)"""


def replay_native(hname, sk, model, outdir, timeout=600):
    os.makedirs(outdir, exist_ok=True)
    with open(os.path.join(outdir, "case.json"), "w") as fh:
        json.dump({"harness": hname, "skeleton": sk, "model": model}, fh, indent=1, default=repr)
    cmd = [sys.executable, "-m", "symx.runner", "--native", outdir]
    env = dict(os.environ)
    env["PYTHONPATH"] = VERIF + os.pathsep + REPO
    try:
        r = subprocess.run(cmd, cwd=VERIF, env=env, capture_output=True, text=True, timeout=timeout)
    except subprocess.TimeoutExpired:
        return {"status": "timeout"}
    resf = os.path.join(outdir, "result.json")
    if not os.path.exists(resf):
        return {"status": "error", "stderr": r.stderr[-2000:]}
    return json.load(open(resf))


def _native_main(outdir):
    case = json.load(open(os.path.join(outdir, "case.json")))
    sys.path.insert(0, REPO)
    h = importlib.import_module(f"harness.{case['harness']}")
    ctx = NativeCtx(case["skeleton"], case["model"], os.path.join(outdir, "traces"))
    res = {"status": "ok", "failures": [], "assume_failed": False}
    try:
        h.run(ctx)
    except Exception as e:
        if not any(fs.filename.startswith(REPO + "/") for fs in traceback.extract_tb(e.__traceback__)):
            res["status"] = "harness-error"
            res["error"] = traceback.format_exc()
        res["failures"].append({"label": "raised:" + type(e).__name__, "detail": f"{type(e).__name__}: {e}",
                                "tb": traceback.format_exc(limit=-8)})
    res["failures"].extend(ctx.failures)
    res["assume_failed"] = bool(ctx.assume_failed)
    with open(os.path.join(outdir, "result.json"), "w") as fh:
        json.dump(res, fh, indent=1, default=repr)


# ---------------------------------------------------------------------------
# parent side
# ---------------------------------------------------------------------------

def load_known():
    if not os.path.exists(KNOWN):
        return []
    return json.load(open(KNOWN)).get("findings", [])


def file_sha(path):
    return hashlib.sha256(open(path, "rb").read()).hexdigest()[:16]


def run_check(hname, tier, jobs=None, budget_s=None):
    t0 = time.time()
    sys.path.insert(0, VERIF)
    h = importlib.import_module(f"harness.{hname}")
    pid = h.ID
    seed = int(os.environ.get("VERIF_SEED", "0"))
    jobs = jobs or int(os.environ.get("VERIF_JOBS", "16"))
    sks = h.skeletons(tier)
    if os.environ.get("VERIF_ONLY"):
        import re
        sks = [sk for sk in sks if re.search(os.environ["VERIF_ONLY"], sk["id"])]
    budget_s = budget_s or getattr(h, "BUDGET_S", {"quick": 600, "thorough": 3600})[tier]
    deadline = t0 + budget_s
    qtimeout = 20000 if tier == "quick" else 120000
    chunk = getattr(h, "CHUNK", 200)

    from .engine import Stats
    total = Stats()
    agg = {"refuted": [], "raised": [], "unsupported": [], "unknown": [], "samples": [], "nontrivial": 0,
           "functions": set(), "tie_paths": 0, "witnesses": []}
    per_sk = {}
    ctx_mp = mp.get_context("fork")
    pending_jobs = [(i, sk, [()], chunk, deadline, True) for i, sk in enumerate(sks)]
    leftover_total = 0
    from concurrent.futures import FIRST_COMPLETED, ProcessPoolExecutor, wait
    with ProcessPoolExecutor(max_workers=jobs, mp_context=ctx_mp, initializer=_worker_init,
                             initargs=(hname, qtimeout, 0 if tier == "quick" else 150)) as pool:
        futs = {}
        while pending_jobs or futs:
            while pending_jobs and len(futs) < jobs * 2:
                j = pending_jobs.pop(0)
                futs[pool.submit(_job, j)] = j
            done, _ = wait(list(futs), return_when=FIRST_COMPLETED)
            for f in done:
                j = futs.pop(f)
                try:
                    out = f.result()
                except Exception as e:
                    print(f"HARNESS-ERROR worker failed on skeleton {j[0]}: {e!r}", file=sys.stderr)
                    traceback.print_exc()
                    return _finish_error(pid, tier, seed, t0, f"worker failed: {e!r}")
                total.merge(out["stats"])
                for k in ("refuted", "raised", "unsupported", "unknown"):
                    for item in out[k]:
                        item["sk"] = out["sk"]
                        agg[k].append(item)
                if len(agg["samples"]) < 6:
                    agg["samples"].extend(out["samples"][:1])
                agg["nontrivial"] += out["nontrivial"]
                if out.get("audit"):
                    a = agg.setdefault("audit", {"audited": 0, "agree": 0, "disagree": 0, "inconclusive": 0, "examples": []})
                    for k2 in ("audited", "agree", "disagree", "inconclusive"):
                        a[k2] += out["audit"][k2]
                    a["examples"] = (a["examples"] + out["audit"]["examples"])[:5]
                for w in out.get("witnesses", []):
                    w["sk"] = out["sk"]
                    agg["witnesses"].append(w)
                agg["tie_paths"] += out["tie_paths"]
                agg["functions"].update(tuple(x) for x in out["functions"])
                d = per_sk.setdefault(out["sk"], {"paths": 0})
                d["paths"] += out["stats"]["paths"]
                if total.paths >= 300 and total.discharged + total.refuted == 0:
                    print(f"HARNESS-ERROR property={pid}: {total.paths} paths and nothing decided, e.g. "
                          f"{(agg['raised'] or agg['unsupported'] or [{}])[0].get('error')}", file=sys.stderr)
                    for f2 in futs:
                        f2.cancel()
                    pool.shutdown(wait=False, cancel_futures=True)
                    return _finish_error(pid, tier, seed, t0, "nothing decided in the first 300 paths")
                rest = out["leftover"]
                watchdog = any("PathTimeout" in (r.get("error") or "") for r in out["raised"])
                if rest:
                    if time.time() < deadline and not watchdog:
                        # split the leftover prefixes into up to 4 new jobs
                        k = max(1, min(4, len(rest)))
                        for part in range(k):
                            sub = rest[part::k]
                            if sub:
                                pending_jobs.append((out["sk"], sks[out["sk"]], sub, chunk, deadline, False))
                    else:
                        leftover_total += len(rest)
    exhaustive = leftover_total == 0 and not pending_jobs

    # ---- triage counterexamples -------------------------------------------------------
    known = [k for k in load_known() if k.get("property") == pid]
    violations, known_hits, diverged = [], {}, []
    cands = agg["refuted"] + (agg["raised"] if getattr(h, "MUST_NOT_RAISE", True) else [])
    # replay at most a few candidates per (label, skeleton), natural ones (no tie choice) first
    cands.sort(key=lambda c: (c.get("ties", 0), len(c.get("prefix", []))))
    tried = {}
    max_per_label = getattr(h, "MAX_REPLAY_PER_LABEL", 4)
    for c in cands:
        if c.get("model") is None:
            continue
        sk = sks[c["sk"]]
        key = h.signature(c["label"], sk, c.get("detail")) if hasattr(h, "signature") else c["label"]
        # a few per label, and beyond that one per not-yet-tried skeleton (a changed tree may keep module-level state
        # that leaks between the paths of a worker process and floods a label with counterexamples that do not
        # reproduce in a fresh interpreter: the reproducing one must still get its turn)
        if tried.get(key, 0) >= max_per_label and (tried.get((key, sk.get("id")), 0) >= 1 or tried.get(key, 0) >= 30):
            continue
        tried[(key, sk.get("id"))] = tried.get((key, sk.get("id")), 0) + 1
        if any(v["signature"] == key for v in violations) and tried.get(key, 0) >= 1:
            continue
        tried[key] = tried.get(key, 0) + 1
        tag = hashlib.sha256(json.dumps([sk.get("id"), c["label"], c["model"]], sort_keys=True, default=repr)
                             .encode()).hexdigest()[:12]
        outdir = os.path.join(REPLAYS, pid, tag)
        res = replay_native(hname, sk, c["model"], outdir, timeout=150 if c["label"] == "raised:PathTimeout" else 600)
        fails = res.get("failures", []) if res.get("status") == "ok" else []
        labels = {f["label"] for f in fails}
        reproduced = c["label"] in labels or (c["label"].startswith("raised:") and any(
            l.startswith("raised:") for l in labels))
        if c["label"] == "raised:PathTimeout" and res.get("status") == "timeout":
            reproduced, fails = True, [{"label": "raised:PathTimeout", "detail": "native run did not finish either"}]
        if res.get("assume_failed"):
            reproduced = False
        if not reproduced and getattr(h, "REPLICABLE", False) and res.get("status") == "ok":
            # an unstable-sort tie order only shows natively on longer arrays: the same witness, every
            # pair replicated 4 times (still a valid trace of the family), must satisfy the same obligations
            import copy as _copy
            sk4 = _copy.deepcopy(sk)
            sk4.setdefault("params", {})["replicate"] = getattr(h, "REPLICATE_FACTOR", 10)
            res4 = replay_native(hname, sk4, c["model"], outdir + "-xN")
            fails4 = res4.get("failures", []) if res4.get("status") == "ok" else []
            if c["label"] in {f["label"] for f in fails4} and not res4.get("assume_failed"):
                reproduced, fails, outdir, sk = True, fails4, outdir + "-xN", sk4
        if not reproduced:
            diverged.append({"label": c["label"], "skeleton": sk.get("id"), "replay": outdir,
                             "native": res.get("status"), "native_failures": sorted(labels),
                             "ties": c.get("ties", 0)})
            continue
        sig = h.signature(c["label"], sk, c.get("detail")) if hasattr(h, "signature") else f"{pid}/{c['label']}"
        hit = next((k for k in known if k.get("status") == "open" and fnmatch.fnmatch(sig, k["signature"])), None)
        if hit:
            known_hits.setdefault(hit["signature"], (hit, outdir))
            continue
        if not any(v["signature"] == sig for v in violations):
            violations.append({"label": c["label"], "signature": sig, "replay": outdir, "skeleton": sk.get("id"),
                               "model": c["model"], "detail": c.get("detail"),
                               "native": [f for f in fails if f["label"] == c["label"] or
                                          f["label"].startswith("raised:")][:2]})

    # ---- native validation of witnesses of paths on which every obligation was discharged -----------------
    # (the dangerous direction: a model that is too lenient).  A witness that violates an obligation natively is a
    # genuine violation of the property by the real code, found by validation instead of by the solver.
    nval = getattr(h, "VALIDATE", {"quick": 6, "thorough": 40})[tier]
    ws = agg["witnesses"]
    # spread over skeletons: round-robin
    by_sk = {}
    for w in ws:
        by_sk.setdefault(w["sk"], []).append(w)
    picked = []
    while len(picked) < nval and any(by_sk.values()):
        for k in sorted(by_sk):
            if by_sk[k] and len(picked) < nval:
                picked.append(by_sk[k].pop(len(by_sk[k]) // 2))
    validated, val_disagree = 0, []
    for w in picked:
        sk = sks[w["sk"]]
        tag = hashlib.sha256(json.dumps([sk.get("id"), "witness", w["model"]], sort_keys=True, default=repr)
                             .encode()).hexdigest()[:12]
        outdir = os.path.join(REPLAYS, pid, "val-" + tag)
        res = replay_native(hname, sk, w["model"], outdir)
        if res.get("status") != "ok" or res.get("assume_failed"):
            continue
        validated += 1
        if res.get("failures"):
            f0 = res["failures"][0]
            sig = h.signature(f0["label"], sk, f0.get("detail")) if hasattr(h, "signature") else f"{pid}/{f0['label']}"
            hit = next((k for k in known if k.get("status") == "open" and fnmatch.fnmatch(sig, k["signature"])), None)
            val_disagree.append({"skeleton": sk.get("id"), "label": f0["label"], "replay": outdir})
            if hit:
                known_hits.setdefault(hit["signature"], (hit, outdir))
            elif not any(v["signature"] == sig for v in violations):
                violations.append({"label": f0["label"], "signature": sig, "replay": outdir, "skeleton": sk.get("id"),
                                   "model": w["model"], "detail": f0.get("detail"), "native": [f0],
                                   "found_by": "native validation of a witness the model had accepted"})
        else:
            import shutil
            shutil.rmtree(outdir, ignore_errors=True)

    # ---- differential self-test of the pandas model (concrete cells vs real pandas), a few seconds ----------------
    selftest = {"status": "not run"}
    try:
        r = subprocess.run([sys.executable, "-m", "selftest.model_selftest", str(seed), "25" if tier == "quick" else "80"],
                           cwd=VERIF, capture_output=True, text=True, timeout=300)
        line = next((l for l in r.stdout.splitlines() if l.startswith("model self-test:")), "")
        selftest = {"status": "ok" if r.returncode == 0 else "DISAGREEMENTS", "summary": line,
                    "details": [l for l in r.stdout.splitlines() if "DISAGREE" in l][:5]}
        if r.returncode != 0:
            print(f"INCONCLUSIVE: property={pid} the pandas model disagrees with real pandas in its self-test: {line}",
                  file=sys.stderr)
    except Exception as e:        # noqa: BLE001
        selftest = {"status": "error", "summary": repr(e)}

    decided = total.discharged + total.refuted
    wall = time.time() - t0
    files = sorted({f for f, _ in agg["functions"]})
    ev = {
        "property_id": pid, "tier": tier, "seed": seed, "level": "other",
        "coverage": {
            "explanation": getattr(h, "EXPLANATION", "") + " Decided by bounded symbolic execution of the real hta "
            "functions (pandas/numpy replaced by a symbolic model), one z3 query per obligation per feasible path; "
            "no sampling.",
            "evaluations": total.obligations,
            "distinct_nontrivial": agg["nontrivial"],
            "rule": "one case = one feasible execution path of the real code through one skeleton (an equivalence "
                    "class of inputs: every value satisfying the path condition); non-trivial = the path admits an "
                    "input satisfying the harness's non-degeneracy predicate (see explanation)",
            "samples": agg["samples"][:6] or [{"note": "no completed path"}],
            "obligations": total.obligations, "discharged": total.discharged,
            "refuted_by_solver": total.refuted, "undecided": total.undecided,
            "exhaustive": bool(exhaustive), "exhaustive_scope": "all feasible paths of all listed skeletons within "
            "the stated bounds" if exhaustive else f"time budget hit: {leftover_total} path prefixes unexplored",
            "skeletons": len(sks), "paths": total.paths, "paths_per_skeleton": {str(sks[i].get("id", i)): d["paths"]
                                                                                 for i, d in sorted(per_sk.items())},
            "decisions": total.decisions, "forks": total.forks,
            "queries": {"sat": total.q_sat, "unsat": total.q_unsat, "unknown": total.q_unknown},
            "solver_s": round(total.solver_s, 2), "max_path_depth": total.max_depth,
            "paths_aborted_infeasible_assumption": total.aborted, "paths_inconclusive_unsupported": total.unsupported,
            "paths_raised": total.raised, "paths_using_tie_order_choice": agg["tie_paths"],
            "cvc5_cross_audit": agg.get("audit", "not run in the quick tier"),
            "model_selftest": selftest,
            "traces_validated_against_impl": validated,
            "validation_rule": "witness inputs (solver models with distinct positive times where possible) of paths whose "
                               "obligations were all discharged, replayed through the real code with real pandas; all "
                               "obligations must hold natively too",
            "validation_disagreements": val_disagree,
            "bounds": getattr(h, "BOUNDS", {}).get(tier, ""),
            "functions_encoded": sorted({q for _, q in agg["functions"]}),
            "source_files": {f: file_sha(f) for f in files if os.path.exists(f)},
            "stubs": getattr(h, "STUBS", []),
            "sort_tie_policy": {"mode": getattr(h, "TIE_MODE", "adversarial"),
                                "sorts_taken_as_stable_in": sorted(getattr(h, "TIE_STABLE_FUNCS", ())),
                                "sorts_not_modelled_in": sorted(getattr(h, "SORT_SKIP_FUNCS", ())),
                                "max_fully_permuted_run": getattr(h, "TIE_MAX_RUN", 4)},
            "shadowed_builtins": ["int", "float", "round", "min", "max", "sum"],
            "counterexamples_not_reproduced_natively": diverged[:10],
            "unsupported_samples": agg["unsupported"][:5],
            "known_findings_hit": [k for k in known_hits],
            "violations_detail": violations[:5],
            "trusted_base": ["z3 5.1.0", "symx engine", "symx pandas/numpy model (differentially tested against "
                             "pandas 3.0.6)", "oracle in harness/" + hname + ".py"],
        },
        "assumptions": getattr(h, "ASSUMPTIONS", []),
        "wall_s": round(wall, 2),
        "violations": len(violations),
    }
    os.makedirs(EVID, exist_ok=True)
    with open(os.path.join(EVID, f"{pid}.json"), "w") as fh:
        json.dump(ev, fh, indent=1, default=repr)

    print(f"[{pid}] tier={tier} skeletons={len(sks)} paths={total.paths} obligations={total.obligations} "
          f"discharged={total.discharged} refuted={total.refuted} undecided={total.undecided} "
          f"unsupported_paths={total.unsupported} raised_paths={total.raised} solver_s={total.solver_s:.1f} "
          f"wall_s={wall:.1f} exhaustive={exhaustive}")
    for d in diverged[:5]:
        print(f"INCONCLUSIVE: property={pid} solver counterexample for '{d['label']}' did not reproduce natively "
              f"({d['replay']}); model divergence, not reported", file=sys.stderr)
    if agg["unsupported"]:
        print(f"INCONCLUSIVE: property={pid} {total.unsupported} path(s) left the modelled pandas subset, e.g. "
              f"{agg['unsupported'][0]['error']}", file=sys.stderr)
    if isinstance(agg.get("audit"), dict) and agg["audit"]["disagree"]:
        print(f"INCONCLUSIVE: property={pid} cvc5 disagrees with z3 on {agg['audit']['disagree']} of "
              f"{agg['audit']['audited']} audited obligations (z3: unsat, cvc5: sat)", file=sys.stderr)
    for sig, (k, outdir) in known_hits.items():
        print(f"KNOWN-FINDING: property={pid} {k.get('description', sig)}")
    if violations:
        for v in violations:
            print(f"VIOLATION property={pid} replay={v['replay']}")
            print(f"  clause={v['label']} skeleton={v['skeleton']} detail={v.get('detail')}", file=sys.stderr)
        return 1
    if decided == 0:
        print(f"HARNESS-ERROR property={pid}: nothing could be decided", file=sys.stderr)
        return EXIT_HARNESS
    return 0


def _finish_error(pid, tier, seed, t0, msg):
    os.makedirs(EVID, exist_ok=True)
    with open(os.path.join(EVID, f"{pid}.json"), "w") as fh:
        json.dump({"property_id": pid, "tier": tier, "seed": seed, "level": "other",
                   "coverage": {"explanation": "harness error: " + msg, "evaluations": 0, "distinct_nontrivial": 0},
                   "wall_s": round(time.time() - t0, 2), "violations": 0}, fh)
    return EXIT_HARNESS


def replay_dir(path):
    """re-run a stored counterexample natively; exit 1 when the violation reproduces."""
    case = json.load(open(os.path.join(path, "case.json")))
    res = replay_native(case["harness"], case["skeleton"], case["model"], path)
    print(json.dumps(res, indent=1))
    return 1 if res.get("failures") else 0


def _shim_main(outdir):
    """run a stored case concretely on the model and print what fails (compare with result.json)."""
    case = json.load(open(os.path.join(outdir, "case.json")))
    from . import loader
    h = importlib.import_module(f"harness.{case['harness']}")
    mods = loader.load(h.MODULES)
    ctx = ShimCtx(case["skeleton"], case["model"], os.path.join(outdir, "traces"), mods)
    ctx.debug = True
    h.run(ctx)
    print(json.dumps({"failures": ctx.failures, "assume_failed": bool(ctx.assume_failed)}, indent=1, default=repr))


if __name__ == "__main__":
    if sys.argv[1] == "--native":
        _native_main(sys.argv[2])
        sys.exit(0)
    if sys.argv[1] == "--shim":
        sys.setrecursionlimit(10000)
        _shim_main(sys.argv[2])
        sys.exit(0)
