"""Bounded dynamic symbolic execution engine (z3).

Symbolic scalars (SInt / SReal / SBool) wrap z3 terms.  ``bool(SBool)`` is a
decision point: the engine asks z3 which outcomes are feasible under the path
condition, follows one, and queues the other for deterministic re-execution
(DFS over decision prefixes).  ``min``/``max``/``where`` build ``ite`` terms and
never fork.  Nothing is sampled: a path ends in ``prove`` obligations that z3
either discharges (unsat of the negation) or refutes with a model.
"""
from __future__ import annotations

import math
import os
import time
from fractions import Fraction

import z3

NAN = float("nan")


class PathAbort(BaseException):
    """Infeasible assumption on this path (not an error)."""


class Unsupported(Exception):
    """The model cannot represent this operation: the path is inconclusive."""


class HarnessError(Exception):
    pass


# the tree under test; VERIF_REPO lets bin/seedcheck.sh point the machinery at a scratch worktree with a seeded change
REPO = os.environ.get("VERIF_REPO", "/repo").rstrip("/")

_CUR = None  # the active Explorer (one per process)
SYMTOKENS = {}


def cur():
    if _CUR is None:
        raise HarnessError("no active explorer")
    return _CUR


def active():
    return _CUR is not None


# ----------------------------------------------------------------------------
# symbolic scalars
# ----------------------------------------------------------------------------

def is_sym(x):
    return isinstance(x, SVal)


def is_nan(x):
    return isinstance(x, float) and x != x


def _frac(x):
    if isinstance(x, bool):
        return Fraction(int(x))
    if isinstance(x, int):
        return Fraction(x)
    if isinstance(x, float):
        return Fraction(x)
    if isinstance(x, Fraction):
        return x
    raise Unsupported(f"not a number: {type(x).__name__}")


def zof(x):
    """z3 arithmetic term of a cell (concrete number or SNum)."""
    if isinstance(x, SNum):
        return x.z
    if isinstance(x, SBool):
        return z3.If(x.z, z3.IntVal(1), z3.IntVal(0))
    if isinstance(x, bool):
        return z3.IntVal(int(x))
    if isinstance(x, int):
        return z3.IntVal(x)
    if isinstance(x, float):
        if x != x or x in (math.inf, -math.inf):
            raise Unsupported("nan/inf in symbolic arithmetic")
        if x == int(x) and abs(x) < 2 ** 62:
            return z3.RealVal(int(x))
        f = Fraction(x)
        return z3.RealVal(f"{f.numerator}/{f.denominator}")
    if isinstance(x, Fraction):
        return z3.RealVal(f"{x.numerator}/{x.denominator}")
    if hasattr(x, "item") and not isinstance(x, (str, bytes)):
        return zof(x.item())
    raise Unsupported(f"cannot lift {type(x).__name__} to z3")


def zbool(x):
    if isinstance(x, SBool):
        return x.z
    if isinstance(x, (bool, int)):
        return z3.BoolVal(bool(x))
    if isinstance(x, SNum):
        return x.z != 0
    if hasattr(x, "item"):
        return zbool(x.item())
    raise Unsupported(f"cannot lift {type(x).__name__} to z3 bool")


def mk(z):
    """Wrap a z3 term; concrete terms come back as Python values."""
    if z3.is_bool(z):
        z = z3.simplify(z)
        if z3.is_true(z):
            return True
        if z3.is_false(z):
            return False
        return SBool(z)
    if z3.is_int_value(z):
        return z.as_long()
    if z3.is_rational_value(z):
        f = Fraction(z.numerator_as_long(), z.denominator_as_long())
        return float(f) if f.denominator != 1 else float(f.numerator)
    if z.sort() == z3.IntSort():
        return SInt(z)
    return SReal(z)


class SVal:
    __slots__ = ("z", "prov")

    def __init__(self, z):
        self.z = z
        self.prov = None   # provenance of ratios / roundings (see provenance())

    def __repr__(self):
        return f"<{type(self).__name__} #{self.z.get_id()}>"

    __str__ = __repr__

    def __format__(self, spec):
        # values formatted into strings (DataFrame.query f-strings) stay recoverable through a token
        tok = f"__symval_{self.z.get_id()}__"
        SYMTOKENS[tok] = self
        return tok

    def __deepcopy__(self, memo):
        return self

    def __copy__(self):
        return self

    def __reduce__(self):
        raise Unsupported("pickling a symbolic value")


class SBool(SVal):
    __slots__ = ()

    def __bool__(self):
        return cur().decide(self.z)

    def __and__(self, o):
        if isinstance(o, (SBool, bool)) or o in (0, 1):
            return mk(z3.And(self.z, zbool(o)))
        return NotImplemented

    __rand__ = __and__

    def __or__(self, o):
        if isinstance(o, (SBool, bool)) or o in (0, 1):
            return mk(z3.Or(self.z, zbool(o)))
        return NotImplemented

    __ror__ = __or__

    def __xor__(self, o):
        if isinstance(o, (SBool, bool)) or o in (0, 1):
            return mk(z3.Xor(self.z, zbool(o)))
        return NotImplemented

    __rxor__ = __xor__

    def __invert__(self):
        return mk(z3.Not(self.z))

    def __eq__(self, o):
        if isinstance(o, (SBool, bool)):
            return mk(self.z == zbool(o))
        if isinstance(o, (int, float, SNum)):
            return mk(zof(self) == zof(o))
        return False

    def __ne__(self, o):
        r = self.__eq__(o)
        return snot(r)

    def __hash__(self):
        return hash(bool(self))

    # arithmetic on booleans (sum of a mask, True + 1 ...)
    def _num(self):
        return SInt(zof(self))

    def __add__(self, o):
        return self._num() + o

    __radd__ = __add__

    def __sub__(self, o):
        return self._num() - o

    def __rsub__(self, o):
        return o - self._num()

    def __mul__(self, o):
        return self._num() * o

    __rmul__ = __mul__

    def __lt__(self, o):
        return self._num() < o

    def __le__(self, o):
        return self._num() <= o

    def __gt__(self, o):
        return self._num() > o

    def __ge__(self, o):
        return self._num() >= o

    def __index__(self):
        return int(bool(self))

    def __int__(self):
        return int(bool(self))


def snot(x):
    if isinstance(x, SBool):
        return mk(z3.Not(x.z))
    return not x


def sand(*xs):
    zs = []
    for x in xs:
        if isinstance(x, SBool):
            zs.append(x.z)
        elif not x:
            return False
    if not zs:
        return True
    return mk(z3.And(*zs)) if len(zs) > 1 else SBool(zs[0])


def sor(*xs):
    zs = []
    for x in xs:
        if isinstance(x, SBool):
            zs.append(x.z)
        elif x:
            return True
    if not zs:
        return False
    return mk(z3.Or(*zs)) if len(zs) > 1 else SBool(zs[0])


def simplies(a, b):
    return sor(snot(a), b)


def _num_other(o):
    return isinstance(o, (int, float, Fraction, SNum, SBool)) and not is_nan(o)


class SNum(SVal):
    __slots__ = ()

    # -- arithmetic --------------------------------------------------------
    def _bin(self, o, f, rev=False):
        if is_nan(o):
            return NAN
        if not _num_other(o):
            if hasattr(o, "item") and not isinstance(o, str):
                o = o.item()
            else:
                return NotImplemented
        a, b = self.z, zof(o)
        if rev:
            a, b = b, a
        return mk(f(a, b))

    def __add__(self, o):
        return self._bin(o, lambda a, b: a + b)

    def __radd__(self, o):
        return self._bin(o, lambda a, b: a + b, True)

    def __sub__(self, o):
        return self._bin(o, lambda a, b: a - b)

    def __rsub__(self, o):
        return self._bin(o, lambda a, b: a - b, True)

    def __mul__(self, o):
        r = self._bin(o, lambda a, b: a * b)
        if self.prov is not None and isinstance(r, SVal) and isinstance(o, (int, float)) and not isinstance(o, bool):
            r.prov = ("scale", o, self.prov)
        return r

    def __rmul__(self, o):
        r = self._bin(o, lambda a, b: a * b, True)
        if self.prov is not None and isinstance(r, SVal) and isinstance(o, (int, float)) and not isinstance(o, bool):
            r.prov = ("scale", o, self.prov)
        return r

    @staticmethod
    def _tdiv(a, b):
        if a.sort() == z3.IntSort():
            a = z3.ToReal(a)
        if b.sort() == z3.IntSort():
            b = z3.ToReal(b)
        return a / b

    def _zero_div(self, num, den):
        """numpy semantics of a true division whose divisor may be zero (symbolic scalars are results of numpy
        reductions: x/0 is nan or +-inf there, never an exception); the zero case is a decision, so it is explored as
        a path of its own instead of being left to z3's unspecified x/0."""
        if isinstance(den, (SNum, int, float)) and not isinstance(den, bool):
            if bool(den == 0):
                if bool(num == 0):
                    return float("nan")
                return float("inf") if bool(num > 0) else float("-inf")
        return None

    def __truediv__(self, o):
        z = self._zero_div(self, o)
        if z is not None:
            return z
        r = self._bin(o, SNum._tdiv)
        if isinstance(r, SVal) and isinstance(o, SNum):
            r.prov = ("ratio", self, o)
        elif isinstance(r, SVal) and self.prov is not None and isinstance(o, (int, float)) and o:
            r.prov = ("scale", Fraction(1) / _frac(o), self.prov)
        return r

    def __rtruediv__(self, o):
        z = self._zero_div(o, self)
        if z is not None:
            return z
        r = self._bin(o, SNum._tdiv, True)
        if isinstance(r, SVal):
            r.prov = ("ratio", o, self)
        return r

    def __floordiv__(self, o):
        if isinstance(o, int) and not isinstance(o, bool) and o > 0 and isinstance(self, SInt):
            return mk(self.z / z3.IntVal(o))
        if isinstance(self, SReal) or isinstance(o, (float, SReal)):
            return self._bin(o, lambda a, b: z3.ToReal(z3.ToInt(SNum._tdiv(a, b))))
        raise Unsupported("floor division by a non-positive or symbolic divisor")

    def __rfloordiv__(self, o):
        raise Unsupported("floor division by a symbolic divisor")

    def __mod__(self, o):
        if isinstance(o, int) and o > 0 and isinstance(self, SInt):
            return mk(self.z % z3.IntVal(o))
        raise Unsupported("modulo with symbolic/non-positive divisor")

    def __pow__(self, o):
        if isinstance(o, int) and 0 <= o <= 4:
            r = 1
            for _ in range(o):
                r = r * self
            return r
        raise Unsupported("symbolic power")

    def __neg__(self):
        return mk(-self.z)

    def __pos__(self):
        return self

    def __abs__(self):
        return mk(z3.If(self.z >= 0, self.z, -self.z))

    # -- comparison --------------------------------------------------------
    def _cmp(self, o, f, kind=None):
        if is_nan(o):
            return False
        if not _num_other(o):
            if hasattr(o, "item") and not isinstance(o, str):
                o = o.item()
                if is_nan(o):
                    return False
            else:
                return NotImplemented
        if kind is not None and type(o) in (int, float):
            # comparison with a constant decided by the declared variable bounds: no term, no solver
            ex = _CUR
            if ex is not None and ex.bounds:
                iv = ex.interval_cached(self.z)
                if iv is not None:
                    lo, hi = iv
                    r = None
                    if kind == "lt":
                        r = True if (hi is not None and hi < o) else (False if (lo is not None and lo >= o) else None)
                    elif kind == "le":
                        r = True if (hi is not None and hi <= o) else (False if (lo is not None and lo > o) else None)
                    elif kind == "gt":
                        r = True if (lo is not None and lo > o) else (False if (hi is not None and hi <= o) else None)
                    elif kind == "ge":
                        r = True if (lo is not None and lo >= o) else (False if (hi is not None and hi < o) else None)
                    elif (hi is not None and hi < o) or (lo is not None and lo > o):
                        r = (kind == "ne")
                    if r is not None:
                        return r
        return mk(f(self.z, zof(o)))

    def __lt__(self, o):
        return self._cmp(o, lambda a, b: a < b, "lt")

    def __le__(self, o):
        return self._cmp(o, lambda a, b: a <= b, "le")

    def __gt__(self, o):
        return self._cmp(o, lambda a, b: a > b, "gt")

    def __ge__(self, o):
        return self._cmp(o, lambda a, b: a >= b, "ge")

    def __eq__(self, o):
        if o is None or isinstance(o, str):
            return False
        r = self._cmp(o, lambda a, b: a == b, "eq")
        return False if r is NotImplemented else r

    def __ne__(self, o):
        if o is None or isinstance(o, str):
            return True
        r = self._cmp(o, lambda a, b: a != b, "ne")
        return True if r is NotImplemented else r

    def __bool__(self):
        return cur().decide(self.z != 0)

    # -- conversions -------------------------------------------------------
    def __hash__(self):
        return cur().hash_of(self)

    def __index__(self):
        v = cur().concretize(self)
        if isinstance(v, int):
            return v
        raise TypeError("symbolic real used as index")

    def __int__(self):
        # the builtin demands a real int: only finite-domain values get here
        v = cur().concretize(self)
        return int(v)

    def __float__(self):
        raise Unsupported("float() of a symbolic value (builtin not shadowed)")

    def __round__(self, n=None):
        return sround(self, n)

    def __floor__(self):
        return sfloor(self)

    def __ceil__(self):
        return sceil(self)

    def __trunc__(self):
        return sint(self)

    def item(self):
        return self


class SInt(SNum):
    __slots__ = ()

    def __and__(self, o):
        return cur().concretize(self) & o

    __rand__ = __and__

    def __or__(self, o):
        return cur().concretize(self) | o

    __ror__ = __or__

    def __lshift__(self, o):
        return cur().concretize(self) << o

    def __rshift__(self, o):
        return cur().concretize(self) >> o

    def __invert__(self):
        return mk(-self.z - 1)


class SReal(SNum):
    __slots__ = ()


def as_real(x):
    if isinstance(x, SReal):
        return x
    if isinstance(x, SInt):
        return SReal(z3.ToReal(x.z))
    if isinstance(x, SBool):
        return SReal(z3.ToReal(zof(x)))
    return float(x)


def sfloor(x):
    if isinstance(x, SReal):
        return mk(z3.ToInt(x.z))
    if isinstance(x, (SInt, int)):
        return x
    return math.floor(x)


def sceil(x):
    if isinstance(x, SReal):
        return mk(-z3.ToInt(-x.z))
    if isinstance(x, (SInt, int)):
        return x
    return math.ceil(x)


def sint(x):
    """Python int(): truncation toward zero."""
    if isinstance(x, SReal):
        return mk(z3.If(x.z >= 0, z3.ToInt(x.z), -z3.ToInt(-x.z)))
    if isinstance(x, SInt):
        return x
    if isinstance(x, SBool):
        return x._num()
    return int(x)


def sfloat(x):
    if isinstance(x, SVal):
        return as_real(x)
    return float(x)


def sround(x, n=None):
    """round(): for reals, *any* value within half a unit of the requested place.

    Exact float rounding is outside the claim (DESIGN 4.2); the result is a
    fresh real r with |r - x| <= 0.5 * 10**-n.  For n=None the result is an Int.
    """
    if not isinstance(x, SVal):
        return round(x, n) if n is not None else round(x)
    if isinstance(x, SBool):
        x = x._num()
    if isinstance(x, SInt):
        return x
    e = cur()
    if n is None:
        r = e.fresh_int("rnd")
        e.add(z3.And(2 * z3.ToReal(r.z) - 1 <= 2 * x.z, 2 * x.z <= 2 * z3.ToReal(r.z) + 1))
        r.prov = ("round", 0, x.prov if x.prov is not None else ("value", x))
        return r
    r = e.fresh_real("rnd")
    half = z3.RealVal(f"1/{2 * 10 ** n}") if n >= 0 else z3.RealVal(10 ** (-n) // 2)
    e.add(z3.And(r.z - x.z <= half, x.z - r.z <= half))
    r.prov = ("round", n, x.prov if x.prov is not None else ("value", x))
    return r


def provenance(x):
    """-> (scale, num, den, rounding places | None) when x was computed as round(scale * num / den, n)."""
    if not isinstance(x, SVal) or x.prov is None:
        return None
    p, places, scale = x.prov, None, Fraction(1)
    while True:
        if p[0] == "round":
            places = p[1] if places is None else min(places, p[1])
            p = p[2]
        elif p[0] == "scale":
            scale *= _frac(p[1])
            p = p[2]
        elif p[0] == "ratio":
            return (scale, p[1], p[2], places)
        elif p[0] == "value":
            return (scale, p[1], 1, places)
        else:
            return None


def smin(a, b):
    if is_nan(a):
        return b
    if is_nan(b):
        return a
    if not is_sym(a) and not is_sym(b):
        return min(a, b)
    return mk(z3.If(zof(a) <= zof(b), *_coerce(zof(a), zof(b))))


def smax(a, b):
    if is_nan(a):
        return b
    if is_nan(b):
        return a
    if not is_sym(a) and not is_sym(b):
        return max(a, b)
    return mk(z3.If(zof(a) >= zof(b), *_coerce(zof(a), zof(b))))


def _coerce(a, b):
    if a.sort() != b.sort():
        if a.sort() == z3.IntSort():
            a = z3.ToReal(a)
        if b.sort() == z3.IntSort():
            b = z3.ToReal(b)
    return a, b


def site(c, a, b):
    """if-then-else without forking when the branches are numeric/bool."""
    if not isinstance(c, SBool):
        return a if c else b
    if a is b:
        return a
    num = (int, float, SNum, SBool, Fraction)
    if isinstance(a, num) and isinstance(b, num) and not is_nan(a) and not is_nan(b):
        if isinstance(a, (bool, SBool)) and isinstance(b, (bool, SBool)):
            return mk(z3.If(c.z, zbool(a), zbool(b)))
        return mk(z3.If(c.z, *_coerce(zof(a), zof(b))))
    return a if c else b  # structural difference (NaN / str): fork


def seq(a, b):
    """Cell equality -> bool | SBool (NaN != NaN, str compare concrete)."""
    if is_sym(a):
        return a == b
    if is_sym(b):
        return b == a
    if is_nan(a) or is_nan(b):
        return False
    return a == b


# ----------------------------------------------------------------------------
# explorer
# ----------------------------------------------------------------------------

class Stats:
    FIELDS = ("paths", "decisions", "forks", "q_sat", "q_unsat", "q_unknown", "solver_s",
              "obligations", "discharged", "refuted", "undecided", "aborted", "unsupported",
              "raised", "max_depth")

    def __init__(self):
        for f in self.FIELDS:
            setattr(self, f, 0)

    def as_dict(self):
        return {f: getattr(self, f) for f in self.FIELDS}

    def merge(self, d):
        for f in self.FIELDS:
            if f == "max_depth":
                self.max_depth = max(self.max_depth, d.get(f, 0))
            else:
                setattr(self, f, getattr(self, f) + d.get(f, 0))


def cvc5_verdict(smt2_text, timeout_ms=15000):
    """check an SMT-LIB2 benchmark (as produced by z3) with the cvc5 wheel: 'sat' | 'unsat' | 'unknown' | 'error:...'"""
    try:
        import cvc5
        slv = cvc5.Solver()
        slv.setOption("tlimit-per", str(timeout_ms))
        slv.setLogic("ALL")
        parser = cvc5.InputParser(slv)
        text = smt2_text.replace("(check-sat)", "")
        parser.setStringInput(cvc5.InputLanguage.SMT_LIB_2_6, text, "audit")
        sm = parser.getSymbolManager()
        while True:
            cmd = parser.nextCommand()
            if cmd.isNull():
                break
            cmd.invoke(slv, sm)
        r = slv.checkSat()
        return "sat" if r.isSat() else "unsat" if r.isUnsat() else "unknown"
    except Exception as e:        # noqa: BLE001
        return "error:" + type(e).__name__ + ":" + str(e)[:80]


class Explorer:
    MAX_CONCRETIZE = 64
    audit_every = 0          # > 0: every n-th discharged batch is re-checked with cvc5

    def __init__(self, query_timeout_ms=20000):
        self.solver = z3.Solver()
        self.qtimeout = query_timeout_ms
        self.solver.set("timeout", query_timeout_ms)
        self.stats = Stats()
        self.reset_path([])

    # -- per path state ----------------------------------------------------
    def reset_path(self, prefix):
        self.hash_reps = []
        self.small = {}
        self.prefix = list(prefix)
        self.trace = []
        self.pending = []
        self.model = None
        self.model_valid = False
        self.vars = {}
        self.nfresh = 0
        self.notes = {}
        self.results = []  # per path obligation outcomes
        self.tie_choices = 0
        self.named_choices = []
        self.bounds = {}
        self._ivcache = {}

    # -- variables ---------------------------------------------------------
    def int(self, name, lo=None, hi=None):
        v = z3.Int(name)
        self.vars[name] = v
        self.bounds[name] = (lo, hi)
        self.small[name] = lo is not None and hi is not None and hi - lo <= self.MAX_CONCRETIZE
        if lo is not None:
            self.add(v >= lo)
        if hi is not None:
            self.add(v <= hi)
        return SInt(v)

    def real(self, name, lo=None, hi=None):
        v = z3.Real(name)
        self.vars[name] = v
        self.bounds[name] = (lo, hi)
        if lo is not None:
            self.add(v >= lo)
        if hi is not None:
            self.add(v <= hi)
        return SReal(v)

    def bool(self, name):
        v = z3.Bool(name)
        self.vars[name] = v
        return SBool(v)

    def fresh_int(self, tag):
        self.nfresh += 1
        return SInt(z3.Int(f"_{tag}{self.nfresh}"))

    def fresh_real(self, tag):
        self.nfresh += 1
        return SReal(z3.Real(f"_{tag}{self.nfresh}"))

    # -- solver plumbing ---------------------------------------------------
    def _check(self, *extra):
        t0 = time.perf_counter()
        r = self.solver.check(*extra)
        if r == z3.unknown and not getattr(self, "_retrying", False):
            # one retry with four times the budget (a busy machine makes wall-clock timeouts flaky)
            self._retrying = True
            try:
                self.solver.set("timeout", 4 * self.qtimeout)
                r = self.solver.check(*extra)
            finally:
                self.solver.set("timeout", self.qtimeout)
                self._retrying = False
        self.stats.solver_s += time.perf_counter() - t0
        if r == z3.sat:
            self.stats.q_sat += 1
        elif r == z3.unsat:
            self.stats.q_unsat += 1
        else:
            self.stats.q_unknown += 1
        return r

    def add(self, z):
        """Add a constraint that is known to keep the path feasible (domain bound / definition)."""
        self.solver.add(z)
        self.model_valid = False

    def _model(self):
        if not self.model_valid:
            r = self._check()
            if r == z3.unsat:
                raise PathAbort()
            if r != z3.sat:
                raise Unsupported("solver unknown on path condition")
            self.model = self.solver.model()
            self.model_valid = True
        return self.model

    def _holds_in_model(self, z):
        m = self._model()
        v = m.eval(z, model_completion=True)
        if z3.is_true(v):
            return True
        if z3.is_false(v):
            return False
        return None

    def feasible(self, z):
        """Is path-condition ∧ z satisfiable?  (True/False/None=unknown)"""
        h = self._holds_in_model(z)
        if h is True:
            return True
        r = self._check(z)
        if r == z3.sat:
            return True
        if r == z3.unsat:
            return False
        return None

    def _interval(self, t, depth=0):
        """interval of an arithmetic term from the declared variable bounds (None = unbounded side / unknown term)"""
        if depth > 12:
            return None
        if z3.is_int_value(t):
            v = t.as_long()
            return (v, v)
        if z3.is_rational_value(t):
            v = Fraction(t.numerator_as_long(), t.denominator_as_long())
            return (v, v)
        k = t.decl().kind()
        if k == z3.Z3_OP_UNINTERPRETED and t.num_args() == 0:
            return self.bounds.get(t.decl().name())
        if k == z3.Z3_OP_TO_REAL:
            return self._interval(t.arg(0), depth + 1)
        if k in (z3.Z3_OP_ADD, z3.Z3_OP_SUB, z3.Z3_OP_UMINUS, z3.Z3_OP_MUL):
            iv = [self._interval(a, depth + 1) for a in t.children()]
            if any(x is None for x in iv):
                return None
            if k == z3.Z3_OP_UMINUS:
                lo, hi = iv[0]
                return (None if hi is None else -hi, None if lo is None else -lo)
            if k == z3.Z3_OP_MUL:
                if len(iv) != 2 or iv[0][0] is None or iv[0][0] != iv[0][1]:
                    return None
                c, (lo, hi) = iv[0][0], iv[1]
                a, b = (None if lo is None else c * lo), (None if hi is None else c * hi)
                return (a, b) if c >= 0 else (b, a)
            lo, hi = iv[0]
            for (l2, h2) in iv[1:]:
                if k == z3.Z3_OP_ADD:
                    lo = None if lo is None or l2 is None else lo + l2
                    hi = None if hi is None or h2 is None else hi + h2
                else:
                    lo = None if lo is None or h2 is None else lo - h2
                    hi = None if hi is None or l2 is None else hi - l2
            return (lo, hi)
        return None

    def interval_cached(self, z):
        k = z.get_id()
        c = self._ivcache
        if k not in c:
            c[k] = (z, self._interval(z))      # keeping z alive keeps its id from being reused
        return c[k][1]

    def _by_bounds(self, z):
        """decide a comparison from the declared bounds alone (these are path-independent facts the solver holds as
        assertions): True / False / None.  Saves the solver round trips for comparisons with far-away constants."""
        neg = False
        if z3.is_not(z):
            z, neg = z.arg(0), True
        k = z.decl().kind()
        if k not in (z3.Z3_OP_LE, z3.Z3_OP_LT, z3.Z3_OP_GE, z3.Z3_OP_GT, z3.Z3_OP_EQ) or z.num_args() != 2:
            return None
        if not (z3.is_arith(z.arg(0)) and z3.is_arith(z.arg(1))):
            return None
        a, b = self._interval(z.arg(0)), self._interval(z.arg(1))
        if a is None or b is None:
            return None
        (al, ah), (bl, bh) = a, b
        if k in (z3.Z3_OP_GE, z3.Z3_OP_GT):
            (al, ah), (bl, bh) = (bl, bh), (al, ah)
            k = z3.Z3_OP_LE if k == z3.Z3_OP_GE else z3.Z3_OP_LT
        r = None
        if k == z3.Z3_OP_LE:
            if ah is not None and bl is not None and ah <= bl:
                r = True
            elif al is not None and bh is not None and al > bh:
                r = False
        elif k == z3.Z3_OP_LT:
            if ah is not None and bl is not None and ah < bl:
                r = True
            elif al is not None and bh is not None and al >= bh:
                r = False
        else:
            if (ah is not None and bl is not None and ah < bl) or (al is not None and bh is not None and al > bh):
                r = False
        if r is None:
            return None
        return (not r) if neg else r

    def decide(self, z):
        z = z3.simplify(z)
        if z3.is_true(z):
            return True
        if z3.is_false(z):
            return False
        bb = self._by_bounds(z)
        if bb is not None:
            self.stats.bound_decided = getattr(self.stats, "bound_decided", 0) + 1
            return bb
        i = len(self.trace)
        self.stats.decisions += 1
        if i < len(self.prefix):
            b = self.prefix[i]
            self.trace.append(b)
            self.solver.add(z if b else z3.Not(z))
            self.model_valid = False
            return b
        h = self._holds_in_model(z)
        if h is None:
            raise Unsupported("model evaluation undetermined")
        other = z3.Not(z) if h else z
        r = self._check(other)
        if r == z3.unknown:
            raise Unsupported("solver unknown at decision")
        b = h
        self.trace.append(b)
        if r == z3.sat:
            self.pending.append(self.trace[:-1] + [not b])
            self.stats.forks += 1
        self.solver.add(z if b else z3.Not(z))
        # the cached model satisfies the chosen side
        return b

    def choose(self, n, tag="choose"):
        """Solver-free n-way nondeterminism (tie orders, iteration orders)."""
        if n <= 1:
            return 0
        i = len(self.trace)
        self.tie_choices += 1
        if i < len(self.prefix):
            k = self.prefix[i]
            self.trace.append(k)
            return k
        self.trace.append(0)
        for k in range(n - 1, 0, -1):
            self.pending.append(self.trace[:-1] + [k])
        self.stats.forks += n - 1
        return 0

    def _is_small(self, z):
        """does the term only mention variables with a declared small finite domain?"""
        todo, seen = [z], set()
        while todo:
            t = todo.pop()
            if t.get_id() in seen:
                continue
            seen.add(t.get_id())
            if z3.is_const(t) and t.decl().kind() == z3.Z3_OP_UNINTERPRETED:
                if not self.small.get(t.decl().name(), False):
                    return False
            todo.extend(t.children())
        return True

    def hash_of(self, x):
        """hash of a symbolic number, consistent with its semantic ==.

        Finite-domain values are concretised (so they meet concrete keys of the same value); any other
        value gets the hash of its equivalence class on this path: it is compared (decision points) with
        the representatives hashed so far."""
        if self._is_small(x.z):
            return hash(self.concretize(x))
        for i, rep in enumerate(self.hash_reps):
            if rep is x or rep.z.get_id() == x.z.get_id() or self.decide(rep.z == x.z):
                return hash(("symclass", i))
        self.hash_reps.append(x)
        return hash(("symclass", len(self.hash_reps) - 1))

    def concretize(self, x):
        """Fork over the feasible values of a (finite-domain) symbolic number."""
        if not isinstance(x, SVal):
            return x
        z = x.z
        for _ in range(self.MAX_CONCRETIZE):
            m = self._model()
            v = m.eval(z, model_completion=True)
            if self.decide(z == v):
                if z3.is_int_value(v):
                    return v.as_long()
                if z3.is_rational_value(v):
                    f = Fraction(v.numerator_as_long(), v.denominator_as_long())
                    return int(f) if f.denominator == 1 else float(f)
                if z3.is_true(v):
                    return True
                if z3.is_false(v):
                    return False
                raise Unsupported("cannot concretize value")
        raise Unsupported("concretisation of a value without a small finite domain")

    def assume(self, c):
        if not isinstance(c, SBool):
            if not c:
                raise PathAbort()
            return
        z = c.z
        h = self._holds_in_model(z)
        if h is not True:
            r = self._check(z)
            if r == z3.unsat:
                raise PathAbort()
            if r != z3.sat:
                raise Unsupported("solver unknown on assumption")
            self.model_valid = False
        self.solver.add(z)

    def prove(self, c, label, detail=None):
        """Obligation: c must hold for every input on this path."""
        self.stats.obligations += 1
        if not isinstance(c, SBool):
            if c:
                self.stats.discharged += 1
                self.results.append((label, "ok", None))
                return True
            # concretely false on a feasible path: any model of the path is a witness
            ce = self.witness()
            self.stats.refuted += 1
            self.results.append((label, "refuted", {"model": ce, "detail": detail}))
            return False
        r = self._check(z3.Not(c.z))
        if r == z3.unsat:
            self.stats.discharged += 1
            self.results.append((label, "ok", None))
            return True
        if r == z3.sat:
            m = self.solver.model()
            ce = self._model_dict(m)
            self.stats.refuted += 1
            self.results.append((label, "refuted", {"model": ce, "detail": detail}))
            return False
        self.stats.undecided += 1
        self.results.append((label, "unknown", None))
        return None

    def prove_all(self, items):
        """items: [(cond, label, detail)].  One query for the conjunction; on a counterexample the
        conjuncts false in that model are recorded as refuted, the others as held-in-this-model."""
        zs = []
        for c, label, detail in items:
            self.stats.obligations += 1
            if isinstance(c, SBool):
                zs.append((c.z, label, detail))
            elif c:
                self.stats.discharged += 1
                self.results.append((label, "ok", None))
            else:
                self.stats.refuted += 1
                self.results.append((label, "refuted", {"model": self.witness(), "detail": detail}))
        if not zs:
            return
        neg = z3.Not(z3.And(*[z for z, _, _ in zs])) if len(zs) > 1 else z3.Not(zs[0][0])
        r = self._check(neg)
        if r == z3.unsat and self.audit_every:
            self._nbatches = getattr(self, "_nbatches", 0) + 1
            if self._nbatches % self.audit_every == 1:
                s2 = z3.Solver()
                s2.add(self.solver.assertions())
                s2.add(neg)
                v = cvc5_verdict(s2.to_smt2())
                self.audit = getattr(self, "audit", {"audited": 0, "agree": 0, "disagree": 0, "inconclusive": 0,
                                                     "examples": []})
                self.audit["audited"] += 1
                if v == "unsat":
                    self.audit["agree"] += 1
                elif v == "sat":
                    self.audit["disagree"] += 1
                    self.audit["examples"].append([l for _, l, _ in zs][:5])
                else:
                    self.audit["inconclusive"] += 1
                    if len(self.audit["examples"]) < 3:
                        self.audit["examples"].append(v)
        if r == z3.unsat:
            self.stats.discharged += len(zs)
            seen = set()
            for _, label, _ in zs:
                if label not in seen:
                    seen.add(label)
                    self.results.append((label, "ok", None))
            return
        if r != z3.sat:
            self.stats.undecided += len(zs)
            self.results.append(("batch", "unknown", None))
            return
        m = self.solver.model()
        ce = self._model_dict(m)
        for z, label, detail in zs:
            if z3.is_false(m.eval(z, model_completion=True)):
                self.stats.refuted += 1
                self.results.append((label, "refuted", {"model": ce, "detail": detail}))
            else:
                self.stats.discharged += 1   # held in this model; not separately decided

    def holds(self, c):
        """True when c holds for every input of this path (no obligation is recorded)."""
        if not isinstance(c, SBool):
            return bool(c)
        return self._check(z3.Not(c.z)) == z3.unsat

    def diverse_witness(self):
        """a model of the path condition, preferably with pairwise distinct, positive integer inputs"""
        ints = [v for n, v in self.vars.items() if v.sort() == z3.IntSort() and not self.small.get(n, False)]
        if len(ints) >= 2:
            r = self._check(z3.Distinct(*ints), *[v > 0 for v in ints])
            if r == z3.sat:
                return self._model_dict(self.solver.model())
        return self.witness()

    def witness(self, extra=None):
        if extra is not None and isinstance(extra, SBool):
            r = self._check(extra.z)
            if r != z3.sat:
                return None
            return self._model_dict(self.solver.model())
        return self._model_dict(self._model())

    def _model_dict(self, m):
        out = {}
        if getattr(self, "named_choices", None):
            out["__choices__"] = list(self.named_choices)     # harness-level nondeterminism, replayed natively
        for name, v in self.vars.items():
            val = m.eval(v, model_completion=True)
            if z3.is_int_value(val):
                out[name] = val.as_long()
            elif z3.is_rational_value(val):
                out[name] = f"{val.numerator_as_long()}/{val.denominator_as_long()}"
            elif z3.is_true(val):
                out[name] = True
            elif z3.is_false(val):
                out[name] = False
            else:
                out[name] = str(val)
        return out

    def can(self, c):
        """Reachability witness helper: is c satisfiable on this path?"""
        if not isinstance(c, SBool):
            return bool(c)
        return self.feasible(c.z) is True

    # -- driving -----------------------------------------------------------
    def run_path(self, fn, prefix):
        """Run fn(self) once along `prefix`.  Returns a dict describing the path."""
        global _CUR
        self.reset_path(prefix)
        self.solver.push()
        _CUR = self
        out = {"prefix": list(prefix), "status": "ok"}
        try:
            fn(self)
        except PathAbort:
            out["status"] = "aborted"
            self.stats.aborted += 1
        except Unsupported as e:
            out["status"] = "unsupported"
            out["error"] = repr(e)
            self.stats.unsupported += 1
        except HarnessError:
            raise
        except RecursionError as e:
            out["status"] = "unsupported"
            out["error"] = repr(e)
            self.stats.unsupported += 1
        except Exception as e:  # the code under test raised
            import traceback
            if not any(fs.filename.startswith(REPO + "/") for fs in traceback.extract_tb(e.__traceback__)):
                raise HarnessError(f"harness raised {type(e).__name__}: {e}\n" + traceback.format_exc()) from e
            out["status"] = "raised"
            out["error"] = f"{type(e).__name__}: {e}"
            out["tb"] = traceback.format_exc(limit=-6)
            try:
                out["model"] = self.witness()
            except BaseException:
                out["model"] = None
            self.stats.raised += 1
        else:
            if getattr(self, "sample_witness", False) and self.results and all(r[1] == "ok" for r in self.results):
                try:
                    out["witness"] = self.diverse_witness()
                except BaseException:
                    out["witness"] = None
        finally:
            _CUR = None
            self.solver.pop()
        self.stats.paths += 1
        self.stats.max_depth = max(self.stats.max_depth, len(self.trace))
        out["results"] = self.results
        out["notes"] = self.notes
        out["pending"] = self.pending
        out["depth"] = len(self.trace)
        out["ties"] = self.tie_choices
        return out

    def explore(self, fn, roots=((),), max_paths=None, deadline=None, on_path=None):
        """DFS over all feasible paths extending each root prefix.

        Returns (leftover_prefixes, paths_run)."""
        stack = [list(r) for r in roots][::-1]
        n = 0
        while stack:
            if max_paths is not None and n >= max_paths:
                break
            if deadline is not None and time.time() > deadline:
                break
            p = stack.pop()
            out = self.run_path(fn, p)
            n += 1
            stack.extend(out["pending"])
            if on_path:
                on_path(out)
            if out.get("status") == "raised" and "PathTimeout" in (out.get("error") or ""):
                break       # a path that ran into the watchdog: leave the rest of this job unexplored (reported)
        return stack, n
