"""Trace families: Kineto-style event specs with "$var" placeholders.

The same spec is (a) instantiated with symbolic scalars and pushed through the real
hta loading pipeline under the pandas model (parse_trace_dict stubbed: reading JSON
is I/O), and (b) instantiated with a solver model, written to real .json files and
loaded natively by TraceAnalysis for replay."""
from __future__ import annotations

import copy
import json
import os

SYM_DIR = "/symx-traces"
T_MAX = 2 ** 40        # default bound of time variables (12.7 days in us); C01 uses 2**52 for the epoch offset
T_EPOCH_MAX = 2 ** 52


def is_var(x):
    return isinstance(x, str) and x.startswith("$")


def subst(obj, env):
    if is_var(obj):
        return env[obj[1:]]
    if isinstance(obj, dict):
        return {k: subst(v, env) for k, v in obj.items()}
    if isinstance(obj, list):
        return [subst(v, env) for v in obj]
    return obj


def collect_vars(obj, out=None):
    out = [] if out is None else out
    if is_var(obj):
        if obj[1:] not in out:
            out.append(obj[1:])
    elif isinstance(obj, dict):
        for v in obj.values():
            collect_vars(v, out)
    elif isinstance(obj, list):
        for v in obj:
            collect_vars(v, out)
    return out


class SymEnv(dict):
    """lazy environment: a "$var" is declared on first use (type/bounds from sk['vars'], default Int in [0,2^52))."""

    def __init__(self, ex, sk):
        super().__init__()
        self.ex, self.sk = ex, sk

    def __missing__(self, n):
        kind, lo, hi = self.sk.get("vars", {}).get(n, ("int", 0, T_MAX))
        if kind == "int" and lo is not None and lo == hi:
            self[n] = lo            # a variable pinned to one value is that value (no solver variable)
            return lo
        if kind == "int":
            v = self.ex.int(n, lo, hi)
        elif kind == "real":
            v = self.ex.real(n, lo, hi)
        elif kind == "bool":
            v = self.ex.bool(n)
        else:
            raise ValueError(kind)
        self[n] = v
        return v


def sym_env(ex, sk):
    return SymEnv(ex, sk)


def model_env(sk, model):
    """concrete environment from a solver model (ints stay ints, rationals become Fractions->float when exact)."""
    from fractions import Fraction
    env = {n: b[1] for n, b in (sk.get("vars") or {}).items() if b[0] == "int" and b[1] is not None and b[1] == b[2]}
    for n, v in model.items():
        if isinstance(v, str) and "/" in v:
            f = Fraction(v)
            env[n] = float(f) if f.denominator != 1 else int(f)
            env["__frac__" + n] = f
        else:
            env[n] = v
    return env


# ---------------------------------------------------------------------------
# event constructors (Kineto chrome-trace dicts)
# ---------------------------------------------------------------------------

HOST_PID, HOST_TID = 100, 100
DEV_PID = 0


def op(name, ts, dur, tid=HOST_TID, pid=HOST_PID, cat="cpu_op", **args):
    e = {"ph": "X", "cat": cat, "name": name, "pid": pid, "tid": tid, "ts": ts, "dur": dur}
    # Kineto writes an args object for every operator ("External id", ...)
    e["args"] = args if args else {"External id": 1}
    return e


def runtime(name, ts, dur, corr, tid=HOST_TID, pid=HOST_PID, cat="cuda_runtime", **args):
    a = {"correlation": corr}
    a.update(args)
    return {"ph": "X", "cat": cat, "name": name, "pid": pid, "tid": tid, "ts": ts, "dur": dur, "args": a}


def kernel(name, ts, dur, stream, corr, cat="kernel", pid=DEV_PID, **args):
    a = {"correlation": corr, "stream": stream}
    a.update(args)
    return {"ph": "X", "cat": cat, "name": name, "pid": pid, "tid": stream, "ts": ts, "dur": dur, "args": a}


def step(n, ts, dur, tid=HOST_TID, pid=HOST_PID):
    return {"ph": "X", "cat": "user_annotation", "name": f"ProfilerStep#{n}", "pid": pid, "tid": tid, "ts": ts,
            "dur": dur}


def meta(pid=HOST_PID, tid=0):
    return {"ph": "M", "name": "process_name", "pid": pid, "tid": tid, "ts": 0, "args": {"name": "python"}}


def instant(ts, pid=HOST_PID, tid=HOST_TID):
    return {"ph": "i", "name": "Record Window End", "pid": pid, "tid": tid, "ts": ts, "s": "g"}


def flow(ts, id_, start=True, pid=HOST_PID, tid=HOST_TID):
    e = {"ph": "s" if start else "f", "id": id_, "pid": pid, "tid": tid, "ts": ts, "cat": "ac2g", "name": "ac2g"}
    if not start:
        e["bp"] = "e"
    return e


def trace_span(ts, dur):
    return {"ph": "X", "cat": "Trace", "name": "PyTorch Profiler (0)", "pid": "Spans", "tid": "PyTorch Profiler",
            "ts": ts, "dur": dur}


def raw_trace(events, rank):
    return {"schemaVersion": 1, "distributedInfo": {"backend": "nccl", "rank": rank, "world_size": 8},
            "traceEvents": events}


# ---------------------------------------------------------------------------
# opening a TraceAnalysis object in both worlds
# ---------------------------------------------------------------------------

_RAWS = {}
_OPEN = {"n": 0}


def reset_registry():
    _RAWS.clear()
    _OPEN["n"] = 0


class _InProcPool:
    """mp.Pool stand-in: map returns results in input order (the documented contract)."""

    def __init__(self, n=None):
        self.n = n

    def __enter__(self):
        return self

    def __exit__(self, *a):
        return False

    def map(self, f, items, chunksize=None):
        return [f(x) for x in items]

    def close(self):
        pass

    def join(self):
        pass


class _FakeMP:
    @staticmethod
    def get_context(kind=None):
        return _FakeMP

    Pool = _InProcPool

    @staticmethod
    def cpu_count():
        return 16


def open_symbolic(mods, ranks_events, include_last_profiler_step=False, load=True, use_multiprocessing=False):
    """TraceAnalysis over the (symbolic) raw dicts, through the real Trace.load_traces."""
    trace_mod = mods["hta.common.trace"]
    ta_mod = mods["hta.trace_analysis"]
    _OPEN["n"] += 1
    d = f"{SYM_DIR}/{_OPEN['n']}"
    for r, ev in ranks_events.items():
        _RAWS[f"{d}/rank{r}.json"] = raw_trace(copy.deepcopy(ev), r)
    files = {r: f"{d}/rank{r}.json" for r in ranks_events}

    def fake_parse_trace_dict(path):
        return copy.deepcopy(_RAWS[path])

    mods["hta.common.trace_parser"].parse_trace_dict = fake_parse_trace_dict
    trace_mod.parse_trace_dict = fake_parse_trace_dict
    trace_mod.Trace._validate_trace_files = lambda self: True
    trace_mod.mp = _FakeMP
    t = trace_mod.Trace(trace_files=dict(files), trace_dir=d)
    if load:
        t.load_traces(include_last_profiler_step, use_multiprocessing=use_multiprocessing)
    ta = ta_mod.TraceAnalysis.__new__(ta_mod.TraceAnalysis)
    ta.t = t
    return ta


def write_files(ranks_events, outdir):
    import shutil
    shutil.rmtree(outdir, ignore_errors=True)
    os.makedirs(outdir, exist_ok=True)
    for r, ev in ranks_events.items():
        with open(os.path.join(outdir, f"rank{r}.json"), "w") as fh:
            json.dump(raw_trace(ev, r), fh)
    return outdir


def open_native(ranks_events, outdir, include_last_profiler_step=False, load=True):
    import logging
    logging.disable(logging.CRITICAL)
    from hta.trace_analysis import TraceAnalysis
    from hta.common.trace import Trace
    write_files(ranks_events, outdir)
    if load:
        return TraceAnalysis(trace_dir=outdir, include_last_profiler_step=include_last_profiler_step)
    ta = TraceAnalysis.__new__(TraceAnalysis)
    ta.t = Trace(trace_dir=outdir)
    return ta
