"""Minimal numpy stand-in whose array cells may be symbolic scalars."""
from __future__ import annotations

import builtins as _b
import math as _math

from . import engine as E

nan = float("nan")
inf = float("inf")
int64 = "int64"
float64 = "float64"
bool_ = "bool"
integer = int
floating = float
number = (int, float)


class dtype:
    def __init__(self, name):
        if isinstance(name, dtype):
            name = name.name
        if name is int:
            name = "int64"
        if name is float:
            name = "float64"
        self.name = str(name)

    @property
    def kind(self):
        return {"int8": "i", "int16": "i", "int32": "i", "int64": "i", "float64": "f", "bool": "b", "object": "O",
                "str": "O"}.get(self.name, "O")

    def __eq__(self, o):
        return getattr(o, "name", o) == self.name or (o is int and self.name == "int64") or (
            o is float and self.name == "float64")

    def __ne__(self, o):
        return not self.__eq__(o)

    def __hash__(self):
        return hash(self.name)

    def __repr__(self):
        return f"dtype('{self.name}')"


def _cellop(op):
    def f(a, b):
        if E.is_nan(a) or E.is_nan(b) or a is None or b is None:
            return nan
        return op(a, b)
    return f


def _cmpop(op):
    def f(a, b):
        if E.is_nan(a) or E.is_nan(b) or a is None or b is None:
            return False
        return op(a, b)
    return f


class ndarray:
    """List-backed array (1-D of cells, or 2-D as list of row ndarrays)."""

    __array_priority__ = 1000

    def __init__(self, data, dtype_name=None):
        self._d = [ndarray(r) if isinstance(r, (list, tuple)) else r for r in data]
        self._dtype = dtype_name

    # -- shape ---------------------------------------------------------------
    @property
    def ndim(self):
        return 2 if self._d and isinstance(self._d[0], ndarray) else 1

    @property
    def shape(self):
        if self.ndim == 2:
            return (len(self._d), len(self._d[0]._d))
        return (len(self._d),)

    @property
    def size(self):
        s = self.shape
        return s[0] * (s[1] if len(s) > 1 else 1)

    @property
    def dtype(self):
        if self._dtype:
            return dtype(self._dtype)
        from .sympd import infer_dtype
        flat = self._d if self.ndim == 1 else [c for r in self._d for c in r._d]
        return dtype(infer_dtype(flat))

    def __len__(self):
        return len(self._d)

    def __iter__(self):
        return iter(self._d)

    def tolist(self):
        return [r.tolist() if isinstance(r, ndarray) else r for r in self._d]

    def __getitem__(self, k):
        if isinstance(k, tuple):
            r, c = k
            rows = self._d[r] if isinstance(r, slice) else [self._d[_idx(r)]]
            if isinstance(r, slice):
                return ndarray([row._d[c] if not isinstance(c, slice) else ndarray(row._d[c]) for row in rows])
            return rows[0][c]
        if isinstance(k, slice):
            return ndarray(self._d[k])
        if isinstance(k, (list, ndarray)) or hasattr(k, "_vals"):
            kk = list(k._vals) if hasattr(k, "_vals") else list(k)
            if kk and _b.all(isinstance(x, (bool, E.SBool)) for x in kk):
                return ndarray([v for v, m in zip(self._d, kk) if m])
            return ndarray([self._d[_idx(i)] for i in kk])
        return self._d[_idx(k)]

    def __setitem__(self, k, v):
        if isinstance(k, slice):
            vals = list(v._d) if isinstance(v, ndarray) else list(v)
            self._d[k] = [ndarray(r) if isinstance(r, (list, tuple)) else r for r in vals]
            return
        self._d[_idx(k)] = v

    def __repr__(self):
        return f"array({self._d!r})"

    def copy(self):
        return ndarray(self.tolist())

    def astype(self, t, **kw):
        from .pdcore import INT_BITS, norm_dtype, wrap_int
        try:
            tn = norm_dtype(t)
        except Exception:
            return self
        if tn in INT_BITS:
            return ndarray([wrap_int(v, tn) for v in self._d], tn)
        return ndarray(list(self._d), tn if tn in ("int64", "float64", "object", "str") else None)

    # -- elementwise ---------------------------------------------------------
    def _ew(self, o, op):
        if isinstance(o, ndarray) or hasattr(o, "_vals") or isinstance(o, (list, tuple)):
            ov = list(o._vals) if hasattr(o, "_vals") else (list(o._d) if isinstance(o, ndarray) else list(o))
            if len(ov) != len(self._d):
                raise ValueError("operands could not be broadcast together")
            return ndarray([op(a, b) for a, b in zip(self._d, ov)])
        return ndarray([op(a, o) for a in self._d])

    def __add__(self, o): return self._ew(o, _cellop(lambda a, b: a + b))
    def __radd__(self, o): return self._ew(o, _cellop(lambda a, b: b + a))
    def __sub__(self, o): return self._ew(o, _cellop(lambda a, b: a - b))
    def __rsub__(self, o): return self._ew(o, _cellop(lambda a, b: b - a))
    def __mul__(self, o): return self._ew(o, _cellop(lambda a, b: a * b))
    __rmul__ = __mul__
    def __truediv__(self, o): return self._ew(o, _cellop(lambda a, b: a / b))
    def __lt__(self, o): return self._ew(o, _cmpop(lambda a, b: a < b))
    def __le__(self, o): return self._ew(o, _cmpop(lambda a, b: a <= b))
    def __gt__(self, o): return self._ew(o, _cmpop(lambda a, b: a > b))
    def __ge__(self, o): return self._ew(o, _cmpop(lambda a, b: a >= b))
    def __eq__(self, o): return self._ew(o, lambda a, b: E.seq(a, b))
    def __ne__(self, o): return self._ew(o, lambda a, b: E.snot(E.seq(a, b)))
    def __and__(self, o): return self._ew(o, lambda a, b: E.sand(a, b))
    __rand__ = __and__
    def __or__(self, o): return self._ew(o, lambda a, b: E.sor(a, b))
    __ror__ = __or__
    def __invert__(self): return ndarray([E.snot(a) for a in self._d])
    def __neg__(self): return ndarray([-a for a in self._d])
    __hash__ = None

    def __bool__(self):
        if len(self._d) == 1:
            return bool(self._d[0])
        raise ValueError("The truth value of an array with more than one element is ambiguous")

    def sum(self):
        return _fold(self._d, lambda a, b: a + b, 0)

    def all(self):
        return all_(self)

    def any(self):
        return any_(self)

    def min(self):
        return _fold(self._d, E.smin, None)

    def max(self):
        return _fold(self._d, E.smax, None)


def _idx(k):
    if isinstance(k, E.SVal):
        return E.cur().concretize(k)
    return k


def _fold(vals, f, init):
    acc = init
    for v in vals:
        if E.is_nan(v) or v is None:
            continue
        acc = v if acc is None else f(acc, v)
    return acc


def _cells(x):
    if isinstance(x, ndarray):
        return list(x._d)
    if hasattr(x, "_vals"):
        return list(x._vals)
    if isinstance(x, (list, tuple)):
        return list(x)
    return None


def array(x, dtype=None):
    if hasattr(x, "to_numpy"):
        return x.to_numpy()
    if isinstance(x, ndarray):
        return x.copy()
    return ndarray(list(x))


asarray = array


def full(n, v, dtype=None):
    if isinstance(n, tuple):
        return ndarray([[v] * n[1] for _ in range(n[0])])
    return ndarray([v] * n)


def zeros(n, dtype=None):
    return full(n, 0)


def _wrap_like(x, vals):
    if hasattr(x, "_vals"):
        return type(x)(vals, index=x.index, name=x.name)
    return ndarray(vals)


def _binary(f):
    def g(a, b):
        ca, cb = _cells(a), _cells(b)
        if ca is None and cb is None:
            return f(a, b)
        if ca is None:
            return _wrap_like(b, [f(a, y) for y in cb])
        if cb is None:
            return _wrap_like(a, [f(x, b) for x in ca])
        return _wrap_like(a, [f(x, y) for x, y in zip(ca, cb)])
    return g


def _nanprop(f):
    def g(a, b):
        if E.is_nan(a) or E.is_nan(b):
            return nan
        return f(a, b)
    return g


def _keep_int_dtype(g):
    """minimum/maximum of a narrow-integer array and a Python int (or an array of the same dtype) keep the dtype
    (NEP 50: Python scalars are weak), like numpy; everything else falls back to inference."""
    def h(a, b):
        from .pdcore import INT_BITS
        for x, y in ((a, b), (b, a)):
            dt = getattr(x, "_dtype", None)
            if dt in INT_BITS and isinstance(y, int) and not isinstance(y, bool) and not (
                    -(1 << (INT_BITS[dt] - 1)) <= y < (1 << (INT_BITS[dt] - 1))):
                raise OverflowError(f"Python integer {y} out of bounds for {dt}")
        r = g(a, b)
        for x, y in ((a, b), (b, a)):
            dt = getattr(x, "_dtype", None)
            if dt in INT_BITS and hasattr(r, "_dtype"):
                bits = INT_BITS[dt]
                if (isinstance(y, int) and not isinstance(y, bool) and -(1 << (bits - 1)) <= y < (1 << (bits - 1))) or \
                        getattr(y, "_dtype", None) == dt:
                    try:
                        r._dtype = dt
                    except Exception:       # noqa: BLE001
                        pass
                break
        return r
    return h


minimum = _keep_int_dtype(_binary(_nanprop(E.smin)))
maximum = _keep_int_dtype(_binary(_nanprop(E.smax)))
greater = _binary(_cmpop(lambda a, b: a > b))
less = _binary(_cmpop(lambda a, b: a < b))
greater_equal = _binary(_cmpop(lambda a, b: a >= b))
less_equal = _binary(_cmpop(lambda a, b: a <= b))
equal = _binary(lambda a, b: E.seq(a, b))
logical_and = _binary(lambda a, b: E.sand(a, b))
logical_or = _binary(lambda a, b: E.sor(a, b))


def all_(x, axis=None):
    c = _cells(x)
    if c is None:
        return x
    if c and isinstance(c[0], ndarray):
        c = [v for r in c for v in r._d]
    return E.sand(*c)


def any_(x, axis=None):
    c = _cells(x)
    if c is None:
        return x
    if c and isinstance(c[0], ndarray):
        c = [v for r in c for v in r._d]
    return E.sor(*c)


all = all_  # noqa: A001
any = any_  # noqa: A001


def isnan(x):
    c = _cells(x)
    if c is None:
        return E.is_nan(x)
    return _wrap_like(x, [E.is_nan(v) for v in c])


def cumsum(x):
    c = _cells(x)
    out, acc = [], 0
    for v in c:
        acc = acc + v
        out.append(acc)
    return _wrap_like(x, out)


def where(c, a, b):
    cc = _cells(c)
    ca, cb = _cells(a), _cells(b)
    out = []
    for i, m in enumerate(cc):
        x = ca[i] if ca is not None else a
        y = cb[i] if cb is not None else b
        out.append(E.site(m, x, y))
    return ndarray(out)


def unique(x, axis=None, return_index=False, return_counts=False):
    """np.unique.  With axis=0 on a 2-D array: unique rows, sorted lexicographically.

    numpy raises TypeError for object arrays with axis != None; the caller passes the
    dtype through ndarray._dtype (see sympd.DataFrame.to_numpy)."""
    if return_index or return_counts:
        raise E.Unsupported("unique: argument value outside the modelled subset")
    from .sympd import sort_positions
    if isinstance(x, ndarray) and axis is not None:
        if x.dtype.name == "object":
            raise TypeError("The axis argument to unique is not supported for dtype object")
        rows = [list(r._d) if isinstance(r, ndarray) else list(r) for r in x._d]
        if not rows:
            return ndarray([])
        from .pdcore import all_concrete
        if _b.all(all_concrete(r) for r in rows):
            order = sort_positions([[r[j] for r in rows] for j in range(len(rows[0]))], stable=True)
        else:
            order = range(len(rows))     # distinct rows in first-occurrence order (row order not modelled)
        def same_row(o, r):
            terms = []
            for a, b in zip(o, r):
                if not E.is_sym(a) and not E.is_sym(b):
                    if not (a == b or (a != a and b != b)):
                        return False            # a concrete column differs: no symbolic comparison needed
                else:
                    terms.append((a, b))
            return bool(all_(ndarray([E.seq(a, b) for a, b in terms]))) if terms else True

        out = []
        for i in order:
            if _b.any(same_row(o, rows[i]) for o in out):
                continue
            out.append(rows[i])
        return ndarray(out)
    c = _cells(x)
    order = sort_positions([c], stable=True)
    out = []
    for i in order:
        if out and E.seq(out[-1], c[i]):
            continue
        out.append(c[i])
    return ndarray(out)


def argsort(x, kind=None, **kw):
    from .sympd import sort_positions
    return ndarray(sort_positions([_cells(x)], True, stable=kind in ("stable", "mergesort")))


def sort(x, kind=None, **kw):
    c = _cells(x)
    return ndarray([c[i] for i in argsort(x, kind=kind)._d])


def arange(*a, dtype=None):
    return ndarray(list(range(*a)))


def concatenate(arrs, axis=0):
    if axis != 0:
        raise E.Unsupported("concatenate: argument value outside the modelled subset")
    out = []
    for a in arrs:
        out.extend(_cells(a))
    return ndarray(out)


def sum(x, axis=None):  # noqa: A001
    if axis not in (None, 0) or (axis == 0 and isinstance(x, ndarray) and x.ndim == 2):
        raise E.Unsupported("sum: argument value outside the modelled subset")
    return _fold(_cells(x), lambda a, b: a + b, 0)


def max(x, axis=None):  # noqa: A001
    if axis not in (None, 0) or (axis == 0 and isinstance(x, ndarray) and x.ndim == 2):
        raise E.Unsupported("max: argument value outside the modelled subset")
    return _fold(_cells(x), E.smax, None)


def min(x, axis=None):  # noqa: A001
    if axis not in (None, 0) or (axis == 0 and isinstance(x, ndarray) and x.ndim == 2):
        raise E.Unsupported("min: argument value outside the modelled subset")
    return _fold(_cells(x), E.smin, None)


def abs(x):  # noqa: A001
    c = _cells(x)
    if c is None:
        return x if E.is_nan(x) else x.__abs__()
    return _wrap_like(x, [v if E.is_nan(v) else v.__abs__() for v in c])


absolute = abs


def round(x, decimals=0):  # noqa: A001
    c = _cells(x)
    if c is None:
        return E.sround(x, decimals)
    return _wrap_like(x, [v if E.is_nan(v) else E.sround(v, decimals) for v in c])


def searchsorted(a, v, side="left"):
    raise E.Unsupported("np.searchsorted")


def diff(x, n=1):
    c = _cells(x)
    return ndarray([c[i + 1] - c[i] for i in range(len(c) - 1)])


def ceil(x):
    return E.sceil(x)


def floor(x):
    return E.sfloor(x)


def isscalar(x):
    return not hasattr(x, "__len__") or isinstance(x, str)


class _Random:
    def seed(self, *a):
        pass


random = _Random()
