"""Symbolic pandas model: groupby, merge/join, concat, query, module-level functions."""
from __future__ import annotations

import ast

from . import engine as E
from . import symnp as np
from .pdcore import (INT_BITS, C_EQ, NAN, Index, MultiIndex, all_concrete, default_index, hashable_key, infer_dtype, is_na,
                     same_label, sort_positions)
from .pdframe import DataFrame
from .pdseries import _STICKY, Series, _is_listlike


# ----------------------------------------------------------------------------
# groupby
# ----------------------------------------------------------------------------

def _group_rows(keycols, n, sort=True, dropna=True):
    """-> list of (key tuple, [positions]) ; forks on symbolic key equality / order."""
    groups = []  # [key, positions]
    concrete = all(all_concrete(c) for c in keycols)
    if concrete:
        d = {}
        for i in range(n):
            key = tuple(c[i] for c in keycols)
            if dropna and any(is_na(k) for k in key):
                continue
            hk = tuple(hashable_key(k) for k in key)
            if hk not in d:
                d[hk] = [key, []]
                groups.append(d[hk])
            d[hk][1].append(i)
    else:
        for i in range(n):
            key = tuple(c[i] for c in keycols)
            if dropna and any(is_na(k) for k in key):
                continue
            # compare with the most recent groups first (typical data is locally grouped)
            for g in reversed(groups):
                if same_label(g[0], key):
                    g[1].append(i)
                    break
            else:
                groups.append([key, [i]])
    if sort and groups:
        cols = [[g[0][j] for g in groups] for j in range(len(keycols))]
        order = sort_positions(cols, True, stable=True)
        groups = [groups[i] for i in order]
    return groups


_AGG = {"sum", "max", "min", "mean", "std", "count", "size", "first", "last", "median", "nunique", "var"}


def _agg_cells(vals, f):
    s = Series(vals)
    if callable(f):
        return f(s)
    if f == "size":
        return len(vals)
    if f == "first":
        v = s._valid()
        return v[0] if v else NAN
    if f == "last":
        v = s._valid()
        return v[-1] if v else NAN
    if f == "sum" and infer_dtype(vals) == "object" and vals and all(isinstance(v, str) for v in vals):
        return "".join(vals)
    return getattr(s, f)()


class GroupBy:
    def __init__(self, df, keys, as_index=True, sort=True, dropna=True, sel=None, hide=(), single=False):
        for k in keys:
            if k not in df._data and k not in df.index.names:
                raise KeyError(k)
        self.df, self.keys, self.as_index, self.sort, self.dropna = df, keys, as_index, sort, dropna
        self.sel, self.hide, self.single = sel, list(hide), single
        self._name = None
        self._groups = None

    def _named(self, n):
        self._name = n
        return self

    def _keycol(self, k):
        if k in self.df._data:
            return self.df._data[k]
        names = self.df.index.names
        if len(names) == 1:
            return self.df.index._vals
        j = names.index(k)
        return [v[j] for v in self.df.index._vals]

    def _grp(self):
        if self._groups is None:
            self._groups = _group_rows([self._keycol(k) for k in self.keys], len(self.df.index), self.sort,
                                       self.dropna)
        return self._groups

    def _valcols(self):
        if self.sel is not None:
            return list(self.sel)
        return [c for c in self.df._data if c not in self.keys and c not in self.hide]

    def __getitem__(self, k):
        if isinstance(k, list):
            for c in k:
                if c not in self.df._data:
                    raise KeyError(f"Columns not found: {c!r}")
            return GroupBy(self.df, self.keys, self.as_index, self.sort, self.dropna, sel=k, hide=self.hide)
        if k not in self.df._data:
            raise KeyError(f"Column not found: {k}")
        return GroupBy(self.df, self.keys, self.as_index, self.sort, self.dropna, sel=[k], hide=self.hide, single=True)

    def __getattr__(self, name):
        if name.startswith("_"):
            raise AttributeError(name)
        if name in self.df._data:
            return self[name]
        raise AttributeError(name)

    def __iter__(self):
        for key, pos in self._grp():
            k = key[0] if len(self.keys) == 1 and not isinstance(self.keys_spec(), list) else key
            sub = self.df._take(pos)
            if self.hide:
                sub = sub.drop(columns=self.hide)
            if self.single:
                sub = sub[self.sel[0]]
            elif self.sel is not None:
                sub = sub[self.sel]
            yield k, sub

    def keys_spec(self):
        return self.keys[0] if len(self.keys) == 1 else self.keys

    def __len__(self):
        return len(self._grp())

    @property
    def groups(self):
        return {(key[0] if len(self.keys) == 1 else key): Index([self.df.index._vals[i] for i in pos])
                for key, pos in self._grp()}

    @property
    def ngroups(self):
        return len(self._grp())

    def get_group(self, name):
        for key, pos in self._grp():
            k = key[0] if len(self.keys) == 1 else key
            if same_label(k, name):
                return self.df._take(pos)
        raise KeyError(name)

    def _key_index(self):
        g = self._grp()
        if len(self.keys) == 1:
            return Index([k[0] for k, _ in g], name=self.keys[0] if self.keys[0] not in self.hide else None)
        return MultiIndex([k for k, _ in g], names=list(self.keys))

    def _finish(self, cols, dts=None):
        """cols: dict col -> list (one entry per group)."""
        g = self._grp()
        if self.as_index:
            return DataFrame._from_cols(cols, self._key_index(), dts)
        out = {k: [key[j] for key, _ in g] for j, k in enumerate(self.keys)}
        out.update(cols)
        return DataFrame._from_cols(out, default_index(len(g)), dts)

    def agg(self, func=None, *a, **kw):
        g = self._grp()
        if func is None and kw:
            out = {}
            for newname, (c, f) in kw.items():
                out[newname] = [_agg_cells([self.df._data[c][i] for i in pos], f) for _, pos in g]
            return self._finish(out)
        if isinstance(func, dict):
            out = {}
            for c, f in func.items():
                if c not in self.df._data:
                    raise KeyError(f"Column(s) {[c]} do not exist")
                if isinstance(f, (list, tuple)):
                    for ff in f:
                        out[(c, ff)] = [_agg_cells([self.df._data[c][i] for i in pos], ff) for _, pos in g]
                else:
                    out[c] = [_agg_cells([self.df._data[c][i] for i in pos], f) for _, pos in g]
            return self._finish(out)
        if isinstance(func, (list, tuple)):
            if self.single:
                c = self.sel[0]
                out = {(f if isinstance(f, str) else f.__name__):
                       [_agg_cells([self.df._data[c][i] for i in pos], f) for _, pos in g] for f in func}
                return self._finish(out)
            out = {}
            for c in self._valcols():
                for f in func:
                    out[(c, f)] = [_agg_cells([self.df._data[c][i] for i in pos], f) for _, pos in g]
            return self._finish(out)
        return self._simple(func)

    aggregate = agg

    def _simple(self, f):
        g = self._grp()
        if self.single:
            c = self.sel[0]
            vals = [_agg_cells([self.df._data[c][i] for i in pos], f) for _, pos in g]
            if self.as_index:
                return Series(vals, index=self._key_index(), name=self._name if self._name is not None or c == "__v"
                              else c)
            return self._finish({c: vals})
        out = {}
        for c in self._valcols():
            vals = [[self.df._data[c][i] for i in pos] for _, pos in g]
            if f in ("sum", "mean", "std", "median", "var") and infer_dtype(self.df._data[c]) in ("str", "object") \
                    and f != "sum":
                continue
            out[c] = [_agg_cells(v, f) for v in vals]
        return self._finish(out)

    def sum(self, **kw): return self._simple("sum")
    def max(self, **kw): return self._simple("max")
    def min(self, **kw): return self._simple("min")
    def mean(self, **kw): return self._simple("mean")
    def std(self, **kw): return self._simple("std")
    def median(self, **kw): return self._simple("median")
    def count(self, **kw): return self._simple("count")
    def first(self, **kw): return self._simple("first")
    def last(self, **kw): return self._simple("last")
    def nunique(self, **kw): return self._simple("nunique")

    def size(self):
        g = self._grp()
        vals = [len(pos) for _, pos in g]
        if self.as_index:
            return Series(vals, index=self._key_index())
        return self._finish({"size": vals})

    def describe(self, **kw):
        g = self._grp()
        if not self.single:
            raise E.Unsupported("DataFrameGroupBy.describe (MultiIndex columns)")
        c = self.sel[0]
        names = ["count", "mean", "std", "min", "25%", "50%", "75%", "max"]
        out = {n: [] for n in names}
        for _, pos in g:
            d = Series([self.df._data[c][i] for i in pos]).describe()
            for n, v in zip(names, d._vals):
                out[n].append(v)
        return self._finish(out)

    def _transform(self, f):
        n = len(self.df.index)
        cols = {}
        for c in self._valcols():
            res = [NAN] * n
            for _, pos in self._grp():
                vals = f(Series([self.df._data[c][i] for i in pos]))._vals
                for i, v in zip(pos, vals):
                    res[i] = v
            cols[c] = res
        if self.single:
            return Series(cols[self.sel[0]], index=self.df.index.copy(), name=self.sel[0])
        return DataFrame._from_cols(cols, self.df.index.copy())

    def cumsum(self, **kw): return self._transform(lambda s: s.cumsum())
    def cummax(self, **kw): return self._transform(lambda s: s.cummax())
    def cummin(self, **kw): return self._transform(lambda s: s.cummin())
    def shift(self, periods=1, **kw): return self._transform(lambda s: s.shift(periods))

    def cumcount(self):
        n = len(self.df.index)
        res = [0] * n
        for _, pos in self._grp():
            for j, i in enumerate(pos):
                res[i] = j
        return Series(res, index=self.df.index.copy())

    def transform(self, f, *a, **kw):
        if isinstance(f, str):
            n = len(self.df.index)
            c = self.sel[0]
            res = [NAN] * n
            for _, pos in self._grp():
                v = _agg_cells([self.df._data[c][i] for i in pos], f)
                for i in pos:
                    res[i] = v
            return Series(res, index=self.df.index.copy(), name=c)
        return self._transform(lambda s: f(s, *a, **kw))

    def apply(self, f, *a, include_groups=True, **kw):
        keys, outs = [], []
        for k, sub in self:
            keys.append(k)
            outs.append(f(sub, *a, **kw))
        if outs and all(isinstance(o, DataFrame) for o in outs):
            return concat(outs, keys=keys, names=self.keys)
        if outs and all(isinstance(o, Series) for o in outs):
            cols = list(outs[0].index._vals)
            return DataFrame._from_cols({c: [o._vals[j] for o in outs] for j, c in enumerate(cols)},
                                        self._key_index())
        return Series(outs, index=self._key_index())

    def head(self, n=5):
        pos = sorted(i for _, p in self._grp() for i in p[:n])
        return self.df._take(pos)


# ----------------------------------------------------------------------------
# merge / join
# ----------------------------------------------------------------------------

def _to_frame(x):
    if isinstance(x, Series):
        if x.name is None:
            raise ValueError("Cannot merge a Series without a name")
        return x.to_frame()
    return x


def _match(lkeys, rkeys):
    """for each left row, list of right positions with equal key tuple."""
    nl = len(lkeys)
    if all_concrete([x for k in lkeys for x in k]) and all_concrete([x for k in rkeys for x in k]):
        d = {}
        for j, k in enumerate(rkeys):
            if any(is_na(x) for x in k) and False:
                continue
            d.setdefault(tuple(hashable_key(x) for x in k), []).append(j)
        return [d.get(tuple(hashable_key(x) for x in k), []) for k in lkeys]
    out = []
    for i in range(nl):
        out.append([j for j, rk in enumerate(rkeys) if same_label(lkeys[i], rk)])
    return out


def merge(left, right, how="inner", on=None, left_on=None, right_on=None, left_index=False, right_index=False,
          sort=False, suffixes=("_x", "_y"), validate=None, **kw):
    left, right = _to_frame(left), _to_frame(right)
    if on is None and left_on is None and right_on is None and not left_index and not right_index:
        on = [c for c in left._data if c in right._data]
        if not on:
            raise ValueError("No common columns to perform merge on")
    if on is not None:
        left_on = right_on = on
    lk = ([left_on] if not isinstance(left_on, list) else left_on) if left_on is not None else None
    rk = ([right_on] if not isinstance(right_on, list) else right_on) if right_on is not None else None
    nl, nr = len(left.index), len(right.index)

    def keyrows(df, cols, use_index, n):
        if use_index:
            return [(v if isinstance(v, tuple) else (v,)) for v in df.index._vals]
        for c in cols:
            if c not in df._data and c not in df.index.names:
                raise KeyError(c)
        return [tuple((df._data[c][i] if c in df._data else df.index._vals[i]) for c in cols) for i in range(n)]

    lkeys = keyrows(left, lk, left_index, nl)
    rkeys = keyrows(right, rk, right_index, nr)
    if how == "right":
        res = merge(right, left, how="left", left_on=right_on, right_on=left_on, left_index=right_index,
                    right_index=left_index, suffixes=(suffixes[1], suffixes[0]))
        return res
    matches = _match(lkeys, rkeys)
    if validate in ("one_to_one", "1:1", "many_to_one", "m:1"):
        if any(len(m) > 1 for m in matches):
            raise ValueError("Merge keys are not unique in right dataset")
    pairs = []
    matched_r = set()
    for i, m in enumerate(matches):
        if m:
            for j in m:
                pairs.append((i, j))
                matched_r.add(j)
        elif how in ("left", "outer"):
            pairs.append((i, None))
    if how == "outer":
        for j in range(nr):
            if j not in matched_r:
                pairs.append((None, j))
    shared_keys = set(lk or []) & set(rk or []) if (lk and rk) else set()
    same_named = [c for c in (lk or []) if rk and c in rk and lk.index(c) == rk.index(c)]
    out, dts = {}, {}
    overlap = [c for c in left._data if c in right._data and c not in same_named]
    for c in left._data:
        name = c + suffixes[0] if c in overlap else c
        if c in same_named:
            jpos = rk.index(c)
            out[name] = [left._data[c][i] if i is not None else rkeys[j][jpos] for i, j in pairs]
        else:
            out[name] = [left._data[c][i] if i is not None else NAN for i, j in pairs]
        dts[name] = left._dt.get(c) if (left._dt.get(c) in _STICKY or (
            left._dt.get(c) in INT_BITS and all(i is not None for i, j in pairs))) else None
        if not pairs and dts[name] is None:
            dts[name] = left._dt.get(c) or infer_dtype(left._data[c])
    for c in right._data:
        if c in same_named:
            continue
        name = c + suffixes[1] if c in overlap else c
        out[name] = [right._data[c][j] if j is not None else NAN for i, j in pairs]
        dts[name] = right._dt.get(c) if (right._dt.get(c) in _STICKY or (
            right._dt.get(c) in INT_BITS and all(j is not None for i, j in pairs))) else None
        if not pairs and dts[name] is None:
            dts[name] = right._dt.get(c) or infer_dtype(right._data[c])
    if left_index and right_index:
        idx = Index([left.index._vals[i] if i is not None else right.index._vals[j] for i, j in pairs],
                    name=left.index.name)
    elif right_index and not left_index:
        idx = Index([left.index._vals[i] if i is not None else NAN for i, j in pairs], name=left.index.name)
    elif left_index and not right_index:
        idx = Index([right.index._vals[j] if j is not None else NAN for i, j in pairs], name=right.index.name)
    else:
        idx = default_index(len(pairs))
    res = DataFrame._from_cols(out, idx, dts)
    if how == "outer" or sort:
        keyn = [c for c in (lk or [])] if lk else None
        if keyn and all(k in res._data for k in keyn):
            order = sort_positions([res._data[k] for k in keyn], True, stable=True)
            res = res._take(order)
            if not (left_index or right_index):
                object.__setattr__(res, "index", default_index(len(order)))
    return res


def join(left, other, on=None, how="left", lsuffix="", rsuffix=""):
    other = _to_frame(other)
    overlap = [c for c in left._data if c in other._data]
    if overlap and not lsuffix and not rsuffix:
        raise ValueError(f"columns overlap but no suffix specified: {overlap}")
    l2 = left.rename(columns={c: c + lsuffix for c in overlap}) if lsuffix else left
    o2 = other.rename(columns={c: c + rsuffix for c in overlap}) if rsuffix else other
    if on is not None:
        on2 = on + lsuffix if (on in overlap and lsuffix) else on
        return merge(l2, o2, how=how, left_on=on2, right_index=True, suffixes=("", ""))
    return merge(l2, o2, how=how, left_index=True, right_index=True, suffixes=("", ""))


# ----------------------------------------------------------------------------
# concat
# ----------------------------------------------------------------------------

def concat(objs, axis=0, join="outer", ignore_index=False, keys=None, names=None, sort=False, **kw):
    if isinstance(objs, dict):
        keys = list(objs.keys())
        objs = list(objs.values())
    if keys is not None and len(list(keys)) != len(list(objs)):
        raise ValueError(f"The length of the keys ({len(list(keys))}) must match the length of the objects to "
                         f"concatenate ({len(list(objs))})")
    objs = [o for o in objs if o is not None]
    if not objs:
        raise ValueError("No objects to concatenate")
    if axis in (1, "columns"):
        frames = [o.to_frame() if isinstance(o, Series) else o for o in objs]
        idx = frames[0].index
        for f in frames[1:]:
            if not idx.identical_concrete(f.index):
                idx = idx.union(f.index) if join == "outer" else idx.intersection(f.index)
        out, dts = {}, {}
        for n, f in enumerate(frames):
            for c in f._data:
                name = (keys[n], c) if keys is not None else c
                out[name] = list(f._col(c)._aligned_to(idx))
                dts[name] = f._dt.get(c)
        return DataFrame._from_cols(out, idx.copy(), dts)
    if all(isinstance(o, Series) for o in objs):
        vals, idx = [], []
        for o in objs:
            vals.extend(o._vals)
            idx.extend(o.index._vals)
        dt = "object" if any(o._dtype == "object" and len(o) for o in objs) else None
        return Series(vals, index=default_index(len(vals)) if ignore_index else Index(idx, name=objs[0].index.name),
                      name=objs[0].name if all(o.name == objs[0].name for o in objs) else None, dtype=dt)
    frames = [o.to_frame() if isinstance(o, Series) else o for o in objs]
    cols = []
    for f in frames:
        for c in f._data:
            if c not in cols:
                cols.append(c)
    if join == "inner":
        cols = [c for c in cols if all(c in f._data for f in frames)]
    out = {c: [] for c in cols}
    dts = {}
    idx = []
    for n, f in enumerate(frames):
        m = len(f.index)
        for c in cols:
            out[c].extend(f._data[c] if c in f._data else [NAN] * m)
            if c in f._data and m and f._dt.get(c) in _STICKY:
                if dts.get(c, f._dt[c]) == f._dt[c]:
                    dts[c] = f._dt[c]
                else:
                    dts[c] = "object"
        if keys is not None:
            idx.extend([(keys[n],) + (v if isinstance(v, tuple) else (v,)) for v in f.index._vals])
        else:
            idx.extend(f.index._vals)
    # a sticky dtype only survives if every non-empty part agrees
    for c in list(dts):
        for f in frames:
            if c in f._data and len(f.index) and f._dt.get(c) != dts[c]:
                if dts[c] == "str" and infer_dtype(f._data[c]) == "str":
                    continue
                dts[c] = "object" if dts[c] == "object" else None
    if ignore_index:
        index = default_index(len(idx))
    elif keys is not None:
        nlev = 1 + frames[0].index.nlevels
        if names and len(list(names)) == nlev:
            lev_names = list(names)
        else:
            lev_names = (list(names) if names else [None]) + frames[0].index.names
        index = MultiIndex(idx, names=lev_names)
    else:
        index = Index(idx, name=frames[0].index.name if all(f.index.name == frames[0].index.name for f in frames)
                      else None, names=frames[0].index._names)
    return DataFrame._from_cols(out, index, dts)


# ----------------------------------------------------------------------------
# query
# ----------------------------------------------------------------------------

class _Q(ast.NodeVisitor):
    def __init__(self, df, env):
        self.df, self.env = df, env

    def visit_Expression(self, n):
        return self.visit(n.body)

    def visit_BoolOp(self, n):
        vals = [self.visit(v) for v in n.values]
        acc = vals[0]
        for v in vals[1:]:
            acc = (acc & v) if isinstance(n.op, ast.And) else (acc | v)
        return acc

    def visit_UnaryOp(self, n):
        v = self.visit(n.operand)
        if isinstance(n.op, (ast.Not, ast.Invert)):
            return ~v
        if isinstance(n.op, ast.USub):
            return -v
        return v

    def visit_BinOp(self, n):
        a, b = self.visit(n.left), self.visit(n.right)
        if isinstance(n.op, ast.BitAnd):
            return a & b
        if isinstance(n.op, ast.BitOr):
            return a | b
        import operator as op
        f = {ast.Add: op.add, ast.Sub: op.sub, ast.Mult: op.mul, ast.Div: op.truediv}[type(n.op)]
        return f(a, b)

    def visit_Compare(self, n):
        left = self.visit(n.left)
        acc = None
        for o, c in zip(n.ops, n.comparators):
            right = self.visit(c)
            if isinstance(o, ast.In):
                r = left.isin(right)
            elif isinstance(o, ast.NotIn):
                r = ~left.isin(right)
            else:
                import operator as op
                f = {ast.Eq: op.eq, ast.NotEq: op.ne, ast.Lt: op.lt, ast.LtE: op.le, ast.Gt: op.gt,
                     ast.GtE: op.ge}[type(o)]
                r = f(left, right)
            acc = r if acc is None else (acc & r)
            left = right
        return acc

    def visit_Name(self, n):
        if n.id in self.df._data:
            return self.df._col(n.id)
        if n.id == "index" or n.id in self.df.index.names:
            return Series(list(self.df.index._vals), index=self.df.index.copy())
        if n.id.startswith("__at__"):
            return self.env[n.id[6:]]
        if n.id.startswith("__symval_") and n.id in E.SYMTOKENS:
            return E.SYMTOKENS[n.id]
        if n.id in ("True", "False"):
            return n.id == "True"
        raise KeyError(f"name {n.id!r} is not defined")

    def visit_Constant(self, n):
        return n.value

    def visit_List(self, n):
        return [self.visit(e) for e in n.elts]

    visit_Tuple = visit_List

    def visit_Attribute(self, n):
        return getattr(self.visit(n.value), n.attr)

    def visit_Call(self, n):
        f = self.visit(n.func)
        return f(*[self.visit(a) for a in n.args], **{k.arg: self.visit(k.value) for k in n.keywords})

    def generic_visit(self, n):
        raise E.Unsupported(f"query syntax {type(n).__name__}")


def eval_query(df, expr, env):
    src = expr.replace("@", "__at__").replace("`", "")
    tree = ast.parse(src.strip(), mode="eval")
    return _Q(df, env).visit(tree)


# ----------------------------------------------------------------------------
# module-level helpers
# ----------------------------------------------------------------------------

def to_numeric(arg, errors="raise", downcast=None, **kw):
    if isinstance(arg, Series):
        out = []
        for v in arg._vals:
            if isinstance(v, str):
                try:
                    out.append(int(v))
                except ValueError:
                    try:
                        out.append(float(v))
                    except ValueError:
                        if errors == "coerce":
                            out.append(NAN)
                        else:
                            raise
            elif isinstance(v, bool):
                out.append(v)
            else:
                out.append(v)
        # downcast="integer": float columns whose values are all integral become ints
        if downcast == "integer" and infer_dtype(out) == "float64" and not any(is_na(v) for v in out):
            ints = []
            for v in out:
                if isinstance(v, float) and v == int(v):
                    ints.append(int(v))
                elif isinstance(v, (int, E.SInt)):
                    ints.append(v)
                else:
                    ints = None
                    break
            if ints is not None:
                out = ints
        dt = None
        if downcast == "integer" and out and infer_dtype(out) == "int64":
            from .pdcore import smallest_int_dtype
            dt = smallest_int_dtype(out)
            dt = None if dt == "int64" else dt
        return arg._new(out, dtype=dt)
    if isinstance(arg, (list, tuple)):
        return to_numeric(Series(list(arg)), errors, downcast).values
    return arg


def isna(x):
    if isinstance(x, (Series, DataFrame)):
        return x.isna()
    c = np._cells(x)
    if c is not None and not isinstance(x, str):
        return np.ndarray([is_na(v) for v in c])
    return is_na(x)


isnull = isna


def notna(x):
    r = isna(x)
    return (not r) if isinstance(r, bool) else ~r


notnull = notna


def unique(x):
    return Series(list(x)).unique()


def to_datetime(*a, **k):
    raise E.Unsupported("to_datetime")


def read_csv(*a, **k):
    raise E.Unsupported("read_csv (I/O)")


def read_json(*a, **k):
    raise E.Unsupported("read_json (I/O)")


def cut(*a, **k):
    raise E.Unsupported("cut")
