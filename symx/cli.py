import argparse
import os
import sys

sys.path.insert(0, os.path.dirname(os.path.dirname(os.path.abspath(__file__))))
sys.setrecursionlimit(10000)


def main():
    ap = argparse.ArgumentParser()
    ap.add_argument("prop")
    ap.add_argument("--tier", default=os.environ.get("VERIF_TIER", "quick"))
    ap.add_argument("--replay")
    ap.add_argument("--jobs", type=int)
    ap.add_argument("--budget", type=int)
    a = ap.parse_args()
    from symx import runner
    if a.replay:
        sys.exit(runner.replay_dir(a.replay))
    sys.exit(runner.run_check(a.prop.lower(), a.tier, jobs=a.jobs, budget_s=a.budget))


if __name__ == "__main__":
    main()
