"""Core helpers of the symbolic pandas model: dtypes, cell operations, sorting, Index."""
from __future__ import annotations

import re

from . import engine as E
from . import symnp as np

NAN = E.NAN


# ----------------------------------------------------------------------------
# dtype model (follows pandas 3.0.6 as observed in this sandbox)
# ----------------------------------------------------------------------------

class DType:
    KINDS = {"int8": "i", "int16": "i", "int32": "i", "int64": "i", "float64": "f", "bool": "b", "object": "O", "str": "O", "Int64": "i",
             "Int16": "i", "Int32": "i", "interval": "O", "category": "O"}

    def __init__(self, name):
        self.name = name

    @property
    def kind(self):
        return self.KINDS.get(self.name, "O")

    def __eq__(self, o):
        if isinstance(o, (DType, np.dtype)):
            return o.name == self.name
        if o is bool:
            return self.name == "bool"
        if isinstance(o, type) and issubclass(o, int):
            return self.name == "int64"
        if isinstance(o, type) and issubclass(o, float):
            return self.name == "float64"
        if o is object:
            return self.name == "object"
        if o is str:
            return self.name == "str"
        if isinstance(o, str):
            if self.name == "object":
                return o in ("object", "O")
            if self.name == "str":
                return o in ("str", "string")
            if self.name == "int64":
                return o in ("int64", "int", "i8")
            if self.name == "float64":
                return o in ("float64", "float", "f8")
            return o == self.name
        return False

    def __ne__(self, o):
        return not self.__eq__(o)

    def __hash__(self):
        return hash(self.name)

    def __repr__(self):
        return f"dtype('{self.name}')"

    __str__ = lambda self: self.name  # noqa: E731


def norm_dtype(d):
    """Normalise a user-given dtype spec to a model dtype name (or None)."""
    if d is None:
        return None
    if isinstance(d, (DType, np.dtype)):
        return d.name
    if isinstance(d, ExtDtype):
        return d.name
    if d in ("int8", "int16", "int32"):
        return d
    if isinstance(d, type) and d is not bool and issubclass(d, int):
        return "int64"
    if isinstance(d, type) and issubclass(d, float):
        return "float64"
    if d is int or d in ("int", "int64", "i8", "uint64", "uint32"):
        return "int64"
    if d is float or d in ("float", "float64", "f8", "float32"):
        return "float64"
    if d is bool or d in ("bool",):
        return "bool"
    if d is str or d in ("str", "string"):
        return "str"
    if d is object or d in ("object", "O"):
        return "object"
    if d in ("Int64", "Int32", "Int16", "Int8"):
        return d
    if d == "category":
        return "object"
    raise E.Unsupported(f"dtype {d!r}")


class ExtDtype:
    def __init__(self, name):
        self.name = name

    def __call__(self):
        return self


def Int64Dtype():
    return ExtDtype("Int64")


def Int32Dtype():
    return ExtDtype("Int32")


def Int16Dtype():
    return ExtDtype("Int16")


def StringDtype(*a, **k):
    return ExtDtype("str")


INT_BITS = {"int8": 8, "int16": 16, "int32": 32}
# to_numeric(downcast="integer") picks the narrowest dtype that holds the *values*; for symbolic values this is a
# case split.  Off by default (symbolic columns are int64); a harness switches it on for families with small bounds.
NARROW = {"symbolic": False}


def wrap_int(v, dtype_name):
    """two's-complement wrap into a narrow integer dtype (symbolic: modular term)"""
    bits = INT_BITS.get(dtype_name)
    if bits is not None and isinstance(v, E.SInt):
        import z3
        m, h = 1 << bits, 1 << (bits - 1)
        return E.mk(((v.z + h) % m) - h)
    if bits is None or not isinstance(v, int) or isinstance(v, bool):
        return v
    m = 1 << bits
    v = v % m
    return v - m if v >= m // 2 else v


def smallest_int_dtype(vals):
    """dtype chosen by to_numeric(downcast='integer') for concrete ints (int64 when a value is symbolic)"""
    lo = hi = 0
    if NARROW["symbolic"] and any(isinstance(v, E.SInt) for v in vals) and all(
            isinstance(v, (int, E.SInt)) and not isinstance(v, bool) for v in vals):
        for name, bits in INT_BITS.items():
            if bool(E.sand(*[E.sand(v >= -(1 << (bits - 1)), v < (1 << (bits - 1))) for v in vals])):
                return name
        return "int64"
    for v in vals:
        if isinstance(v, bool) or not isinstance(v, int):
            return "int64"
        lo, hi = min(lo, v), max(hi, v)
    for name, bits in INT_BITS.items():
        if -(1 << (bits - 1)) <= lo and hi < (1 << (bits - 1)):
            return name
    return "int64"


def is_na(v):
    return v is None or E.is_nan(v) or v is NA


class _NA:
    def __repr__(self):
        return "<NA>"

    def __bool__(self):
        raise TypeError("boolean value of NA is ambiguous")


NA = _NA()


def infer_dtype(vals):
    if not vals:
        return "object"
    kinds = set()
    for v in vals:
        if v is None or v is NA:
            kinds.add("none")
        elif isinstance(v, (bool, E.SBool)):
            kinds.add("bool")
        elif isinstance(v, (int, E.SInt)):
            kinds.add("int")
        elif isinstance(v, float):
            kinds.add("nan" if v != v else "float")
        elif isinstance(v, E.SReal):
            kinds.add("float")
        elif isinstance(v, str):
            kinds.add("str")
        else:
            kinds.add("obj")
    if kinds == {"bool"}:
        return "bool"
    if kinds == {"int"}:
        return "int64"
    if kinds <= {"int", "float", "nan", "none"} and kinds & {"int", "float", "nan"}:
        return "float64"
    if kinds <= {"str", "nan", "none"} and "str" in kinds:
        return "str"
    return "object"


# ----------------------------------------------------------------------------
# cell operations
# ----------------------------------------------------------------------------

def _arith(op):
    def f(a, b):
        if is_na(a) or is_na(b):
            return NAN
        return op(a, b)
    return f


def _tdiv(a, b):
    if not E.is_sym(b) and b == 0:
        if E.is_sym(a):
            raise E.Unsupported("symbolic / 0")
        return NAN if a == 0 else (float("inf") if a > 0 else float("-inf"))
    if E.is_sym(b) or E.is_sym(a):
        if E.is_sym(b):
            # division by a symbolic value: fork on zero (pandas yields inf/nan, not an error)
            if b == 0:
                if E.is_sym(a):
                    return NAN if (a == 0) else (float("inf") if (a > 0) else float("-inf"))
                return NAN if a == 0 else (float("inf") if a > 0 else float("-inf"))
        return E.as_real(a) / b if not E.is_sym(a) else a / b
    return a / b


class npint(int):
    """concrete result of a reduction: a numpy scalar, whose true division by zero gives nan/inf instead of raising"""
    def __truediv__(self, o):
        return _tdiv(int(self), o)

    def __rtruediv__(self, o):
        return _tdiv(o, int(self))


class npfloat(float):
    def __truediv__(self, o):
        return _tdiv(float(self), o)

    def __rtruediv__(self, o):
        return _tdiv(o, float(self))


def np_scalar(v):
    if isinstance(v, bool) or E.is_sym(v):
        return v
    if isinstance(v, int):
        return npint(v)
    if isinstance(v, float):
        return npfloat(v)
    return v


C_ADD = _arith(lambda a, b: a + b)
C_SUB = _arith(lambda a, b: a - b)
C_MUL = _arith(lambda a, b: a * b)
C_DIV = _arith(_tdiv)
C_FLOORDIV = _arith(lambda a, b: a // b)
C_MOD = _arith(lambda a, b: a % b)


def _cmp(op):
    def f(a, b):
        if is_na(a) or is_na(b):
            return False
        return op(a, b)
    return f


C_LT = _cmp(lambda a, b: a < b)
C_LE = _cmp(lambda a, b: a <= b)
C_GT = _cmp(lambda a, b: a > b)
C_GE = _cmp(lambda a, b: a >= b)


def C_EQ(a, b):
    if is_na(a) or is_na(b):
        return False
    if isinstance(a, str) != isinstance(b, str):
        return False
    return E.seq(a, b)


def C_NE(a, b):
    return E.snot(C_EQ(a, b))


def C_AND(a, b):
    return E.sand(_tobool(a), _tobool(b))


def C_OR(a, b):
    return E.sor(_tobool(a), _tobool(b))


def _tobool(a):
    if isinstance(a, (bool, E.SBool)):
        return a
    if is_na(a):
        return False
    if isinstance(a, (int, float)):
        return bool(a)
    if isinstance(a, E.SNum):
        return a != 0
    raise TypeError(f"cannot use {type(a).__name__} as boolean mask cell")


def truth(m):
    """Python truth of a mask cell (decision point when symbolic)."""
    if is_na(m):
        raise ValueError("Cannot mask with non-boolean array containing NA / NaN values")
    return bool(m)


def same_label(a, b):
    """bool: are two index labels equal (forks when symbolic)."""
    if isinstance(a, tuple) or isinstance(b, tuple):
        if not (isinstance(a, tuple) and isinstance(b, tuple)) or len(a) != len(b):
            return False
        return all(same_label(x, y) for x, y in zip(a, b))
    if is_na(a) and is_na(b):
        return True
    r = C_EQ(a, b)
    return bool(r)


def all_concrete(vals):
    for v in vals:
        if isinstance(v, E.SVal):
            return False
        if isinstance(v, tuple) and any(isinstance(x, E.SVal) for x in v):
            return False
    return True


def hashable_key(v):
    if is_na(v):
        return ("__nan__",)
    if isinstance(v, float) and v == int(v):
        return int(v)
    if isinstance(v, bool):
        return int(v)
    return v


# ----------------------------------------------------------------------------
# sorting (forks on symbolic comparisons; optional adversarial tie order)
# ----------------------------------------------------------------------------

# Tie policy of the default (quicksort) single-key sort_values.  "adversarial": every permutation of
# a run of equal keys is explored (numpy's SIMD argsort really is unstable).  Sorts issued by the hta
# functions named in stable_funcs are taken as stable (presentation sorts whose row order no obligation
# reads); runs longer than max_run explore identity, reversal and every adjacent transposition only.
# skip_funcs: sorts issued by these hta functions are not modelled at all (rows keep their order): a
# recorded cut for pure presentation sorts on symbolic keys whose result order no obligation reads.
TIE_MODE = {"mode": "adversarial", "stable_funcs": set(), "skip_funcs": set(), "max_run": 4}


def _site_in(sf):
    if not sf:
        return False
    import sys
    f = sys._getframe(2)
    while f is not None:
        if f.f_code.co_filename.startswith(E.REPO + "/"):
            return f.f_code.co_name in sf
        f = f.f_back
    return False


def _tie_site_stable():
    return _site_in(TIE_MODE["stable_funcs"])


def _lt_cells(a, b):
    """strict order with NaN last; returns bool (decision when symbolic)."""
    na, nb = is_na(a), is_na(b)
    if na or nb:
        return (not na) and nb
    if isinstance(a, str) or isinstance(b, str):
        if not (isinstance(a, str) and isinstance(b, str)):
            raise TypeError("'<' not supported between str and number")
        return a < b
    return bool(a < b)


def _eq_cells(a, b):
    na, nb = is_na(a), is_na(b)
    if na or nb:
        return na and nb
    return bool(E.seq(a, b))


def _cmp_keys(ka, kb, asc):
    """-1/0/1 comparing key tuples lexicographically (NaN always last)."""
    for x, y, up in zip(ka, kb, asc):
        if _eq_cells(x, y):
            continue
        nx, ny = is_na(x), is_na(y)
        if nx or ny:
            return 1 if nx else -1
        lt = _lt_cells(x, y)
        if not up:
            lt = not lt
        return -1 if lt else 1
    return 0


def sort_positions(keycols, ascending=True, stable=True):
    """Return the permutation that sorts rows by the given key columns.

    Binary-free insertion from the right (already sorted input costs one forced
    decision per row).  With stable=False the order inside each run of equal keys
    is chosen nondeterministically (every permutation is explored) unless
    TIE_MODE is 'stable'."""
    n = len(keycols[0]) if keycols else 0
    if TIE_MODE["skip_funcs"] and E.active() and _site_in(TIE_MODE["skip_funcs"]) and not all(
            all_concrete(c) for c in keycols):
        return list(range(n))
    asc = ascending if isinstance(ascending, (list, tuple)) else [ascending] * len(keycols)
    keys = [tuple(c[i] for c in keycols) for i in range(n)]
    order = []          # positions, sorted
    res = {}            # (left position, new position) -> comparison result
    if n <= 16:
        for i in range(n):
            j = len(order)
            while j > 0:
                c = _cmp_keys(keys[order[j - 1]], keys[i], asc)
                res[(order[j - 1], i)] = c
                if c <= 0:
                    break
                j -= 1
            order.insert(j, i)
        eq_next = [res.get((order[j], order[j + 1])) == 0 for j in range(len(order) - 1)]
    else:
        # long inputs (padding families): the right neighbour first (sorted input stays linear), then binary insertion
        # at the upper bound (stable); O(n log n) comparisons instead of O(n^2)
        for i in range(n):
            lo, hi = 0, len(order)
            if hi and _cmp_keys(keys[order[hi - 1]], keys[i], asc) <= 0:
                lo = hi
            while lo < hi:
                mid = (lo + hi) // 2
                if _cmp_keys(keys[order[mid]], keys[i], asc) <= 0:
                    lo = mid + 1
                else:
                    hi = mid
            order.insert(lo, i)
        eq_next = [_cmp_keys(keys[order[j]], keys[order[j + 1]], asc) == 0 for j in range(len(order) - 1)] \
            if (not stable and TIE_MODE["mode"] == "adversarial" and E.active()) else [False] * max(0, len(order) - 1)
    if not stable and TIE_MODE["mode"] == "adversarial" and E.active() and any(eq_next) and not _tie_site_stable():
        out, run = [], []
        for j, p in enumerate(order):
            run.append(p)
            if j == len(order) - 1 or not eq_next[j]:
                out.extend(_choose_perm(run))
                run = []
        order = out
    return order


def _choose_perm(run):
    if len(run) <= 1:
        return run
    run = list(run)
    out = []
    e = E.cur()
    if len(run) > TIE_MODE["max_run"]:
        k = e.choose(len(run) + 1, "tie-long")
        if k == 0:
            return run
        if k == 1:
            return run[::-1]
        run[k - 2], run[k - 1] = run[k - 1], run[k - 2]
        return run
    while len(run) > 1:
        k = e.choose(len(run), "tie")
        out.append(run.pop(k))
    out.append(run[0])
    return out


# ----------------------------------------------------------------------------
# Index
# ----------------------------------------------------------------------------

class Interval:
    def __init__(self, left, right, closed="right"):
        self.left, self.right, self.closed = left, right, closed

    def overlaps(self, o):
        # both [a,b): overlap iff a1 < b2 and a2 < b1
        if self.closed == "left" and o.closed == "left":
            return E.sand(self.left < o.right, o.left < self.right)
        raise E.Unsupported("interval closed=" + self.closed)

    def __repr__(self):
        return f"Interval({self.left}, {self.right}, closed={self.closed!r})"

    def __eq__(self, o):
        return isinstance(o, Interval) and bool(E.sand(E.seq(self.left, o.left), E.seq(self.right, o.right)))

    def __hash__(self):
        return hash((hash(self.left), hash(self.right)))


class StrAccessor:
    def __init__(self, vals, wrap):
        self._v, self._wrap = vals, wrap

    def _map(self, f):
        out = []
        for v in self._v:
            if is_na(v):
                out.append(NAN)
            elif isinstance(v, str):
                out.append(f(v))
            else:
                out.append(NAN)
        return self._wrap(out)

    def startswith(self, p):
        return self._map(lambda s: s.startswith(p))

    def endswith(self, p):
        return self._map(lambda s: s.endswith(p))

    def contains(self, p, regex=True, case=True, na=None):
        if regex:
            rx = re.compile(p, 0 if case else re.I)
            return self._map(lambda s: rx.search(s) is not None)
        return self._map(lambda s: p in s)

    def match(self, p):
        rx = re.compile(p)
        return self._map(lambda s: rx.match(s) is not None)

    def fullmatch(self, p):
        rx = re.compile(p)
        return self._map(lambda s: rx.fullmatch(s) is not None)

    def replace(self, a, b, regex=False):
        if regex:
            rx = re.compile(a)
            return self._map(lambda s: rx.sub(b, s))
        return self._map(lambda s: s.replace(a, b))

    def lower(self):
        return self._map(str.lower)

    def upper(self):
        return self._map(str.upper)

    def len(self):
        return self._map(len)

    def strip(self):
        return self._map(str.strip)

    def split(self, sep=None):
        return self._map(lambda s: s.split(sep))


class Index:
    def __init__(self, data=(), name=None, names=None):
        if isinstance(data, Index):
            name = data.name if name is None and names is None else name
            names = data._names if names is None else names
            data = data._vals
        elif hasattr(data, "_vals"):
            data = data._vals
        elif isinstance(data, np.ndarray):
            data = data.tolist()
        self._vals = list(data)
        self._names = list(names) if names is not None else None
        self.name = name

    # -- basics ------------------------------------------------------------
    @property
    def names(self):
        return self._names if self._names is not None else [self.name]

    @names.setter
    def names(self, v):
        v = list(v)
        if len(v) == 1:
            self.name = v[0]
            self._names = None
        else:
            self._names = v

    @property
    def nlevels(self):
        return len(self.names)

    @property
    def values(self):
        return np.ndarray(list(self._vals))

    @property
    def dtype(self):
        return DType(infer_dtype(self._vals))

    @property
    def is_unique(self):
        return len(self.unique()) == len(self._vals)

    @property
    def empty(self):
        return not self._vals

    @property
    def size(self):
        return len(self._vals)

    @property
    def shape(self):
        return (len(self._vals),)

    def __len__(self):
        return len(self._vals)

    def __iter__(self):
        return iter(self._vals)

    def __contains__(self, k):
        return any(same_label(v, k) for v in self._vals)

    def __getitem__(self, k):
        if isinstance(k, slice):
            return Index(self._vals[k], name=self.name, names=self._names)
        c = np._cells(k)
        if c is not None:
            if c and all(isinstance(x, (bool, E.SBool)) for x in c):
                return Index([v for v, m in zip(self._vals, c) if truth(m)], name=self.name, names=self._names)
            return Index([self._vals[np._idx(i)] for i in c], name=self.name, names=self._names)
        return self._vals[np._idx(k)]

    def __repr__(self):
        return f"Index({self._vals!r}, name={self.name!r})"

    def copy(self):
        return Index(self._vals, name=self.name, names=self._names)

    def tolist(self):
        return list(self._vals)

    to_list = tolist

    def to_numpy(self):
        return np.ndarray(list(self._vals))

    def to_series(self):
        from .pdseries import Series
        return Series(list(self._vals), index=self.copy(), name=self.name)

    def equals(self, o):
        ov = o._vals if isinstance(o, Index) else list(o)
        return len(ov) == len(self._vals) and all(same_label(a, b) for a, b in zip(self._vals, ov))

    def identical_concrete(self, o):
        """fast positional-equality test that never forks (False when unsure)."""
        if self is o:
            return True
        a, b = self._vals, o._vals
        if len(a) != len(b):
            return False
        for x, y in zip(a, b):
            if x is y:
                continue
            if isinstance(x, E.SVal) or isinstance(y, E.SVal):
                return False
            if isinstance(x, Interval) or isinstance(y, Interval):
                return False
            if x != y and not (is_na(x) and is_na(y)):
                return False
        return True

    # -- set-like / elementwise ---------------------------------------------
    def unique(self):
        out = []
        for v in self._vals:
            if not any(same_label(v, u) for u in out):
                out.append(v)
        return Index(out, name=self.name, names=self._names)

    def isin(self, vals):
        vv = list(np._cells(vals) if np._cells(vals) is not None else vals)
        return np.ndarray([E.sor(*[C_EQ(v, x) for x in vv]) for v in self._vals])

    def union(self, o, sort=None):
        out = Index(self._vals + [v for v in (o._vals if isinstance(o, Index) else list(o))]).unique()
        vals = out._vals
        if sort is not False:
            try:
                vals = [vals[i] for i in sort_positions([vals])]
            except TypeError:
                pass
        return Index(vals, name=self.name)

    def difference(self, o):
        ov = o._vals if isinstance(o, Index) else list(o)
        return Index([v for v in self._vals if not any(same_label(v, x) for x in ov)], name=self.name)

    def intersection(self, o):
        ov = o._vals if isinstance(o, Index) else list(o)
        return Index([v for v in self._vals if any(same_label(v, x) for x in ov)], name=self.name)

    def get_loc(self, k):
        pos = [i for i, v in enumerate(self._vals) if same_label(v, k)]
        if not pos:
            raise KeyError(k)
        return pos[0] if len(pos) == 1 else pos

    def positions(self, k):
        return [i for i, v in enumerate(self._vals) if same_label(v, k)]

    def get_level_values(self, lvl):
        if isinstance(lvl, str):
            lvl = self.names.index(lvl)
        return Index([v[lvl] for v in self._vals], name=self.names[lvl])

    def map(self, f):
        if isinstance(f, dict):
            return Index([f.get(v, NAN) for v in self._vals], name=self.name)
        return Index([f(v) for v in self._vals], name=self.name)

    def astype(self, t):
        from .pdseries import Series
        return Index(Series(self._vals).astype(t)._vals, name=self.name)

    def overlaps(self, iv):
        return np.ndarray([v.overlaps(iv) for v in self._vals])

    @property
    def str(self):
        return StrAccessor(self._vals, lambda out: np.ndarray(out))

    def _ew(self, o, op):
        c = np._cells(o)
        if c is not None:
            return np.ndarray([op(a, b) for a, b in zip(self._vals, c)])
        return np.ndarray([op(a, o) for a in self._vals])

    def __eq__(self, o): return self._ew(o, C_EQ)
    def __ne__(self, o): return self._ew(o, C_NE)
    def __lt__(self, o): return self._ew(o, C_LT)
    def __le__(self, o): return self._ew(o, C_LE)
    def __gt__(self, o): return self._ew(o, C_GT)
    def __ge__(self, o): return self._ew(o, C_GE)
    def __add__(self, o): return Index(self._ew(o, C_ADD)._d, name=self.name)
    def __sub__(self, o): return Index(self._ew(o, C_SUB)._d, name=self.name)
    __hash__ = None

    def min(self):
        return np._fold(self._vals, E.smin, None)

    def max(self):
        return np._fold(self._vals, E.smax, None)

    def sort_values(self):
        return Index([self._vals[i] for i in sort_positions([self._vals])], name=self.name)

    def drop_duplicates(self):
        return self.unique()

    def rename(self, name):
        return Index(self._vals, name=name)

    def set_names(self, names):
        r = self.copy()
        r.names = names if isinstance(names, (list, tuple)) else [names]
        return r

    def all(self):
        return E.sand(*[_tobool(v) for v in self._vals])

    def any(self):
        return E.sor(*[_tobool(v) for v in self._vals])


class MultiIndex(Index):
    @classmethod
    def from_tuples(cls, t, names=None):
        return cls(list(t), names=names)

    @classmethod
    def from_arrays(cls, arrs, names=None):
        return cls(list(zip(*[list(a) for a in arrs])), names=names)

    @classmethod
    def from_product(cls, its, names=None):
        import itertools
        return cls(list(itertools.product(*its)), names=names)


class RangeIndexFactory:
    def __call__(self, *a, name=None):
        return Index(list(range(*a)), name=name)


RangeIndex = RangeIndexFactory()


class IntervalIndex(Index):
    @classmethod
    def from_arrays(cls, left, right, closed="right", name=None):
        l, r = np._cells(left), np._cells(right)
        return cls([Interval(a, b, closed) for a, b in zip(l, r)], name=name)


def default_index(n):
    return Index(list(range(n)))
