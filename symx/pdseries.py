"""Symbolic pandas model: Series."""
from __future__ import annotations

from . import engine as E
from . import symnp as np
from .pdcore import (np_scalar, INT_BITS, wrap_int, C_ADD, C_AND, C_DIV, C_EQ, C_FLOORDIV, C_GE, C_GT, C_LE, C_LT, C_MOD, C_MUL, C_NE, C_OR,
                     C_SUB, NAN, DType, Index, StrAccessor, _tobool, all_concrete, default_index, hashable_key,
                     infer_dtype, is_na, norm_dtype, same_label, sort_positions, truth)

_STICKY = ("object", "str", "Int64", "Int32", "Int16")


def _is_listlike(x):
    return isinstance(x, (list, tuple, np.ndarray, Index, set, frozenset, range)) or hasattr(x, "_vals") or (
        hasattr(x, "__iter__") and not isinstance(x, (str, bytes, dict)))


def _quantile(sorted_vals, q):
    """linear interpolation quantile over already sorted cells."""
    n = len(sorted_vals)
    if n == 0:
        return NAN
    pos = (n - 1) * q
    if E.is_sym(pos):
        lo = E.sfloor(pos)
        lo = E.cur().concretize(lo)
    else:
        lo = int(pos // 1)
    hi = min(lo + 1, n - 1)
    frac = pos - lo
    a, b = sorted_vals[lo], sorted_vals[hi]
    if not E.is_sym(frac) and frac == 0:
        return E.as_real(a) if E.is_sym(a) else float(a)
    return E.as_real(a) + (b - a) * frac if E.is_sym(a) or E.is_sym(b) or E.is_sym(frac) else a + (b - a) * frac


def _R_ADD(a, b):
    return C_ADD(b, a)


def _R_SUB(a, b):
    return C_SUB(b, a)


def _R_MUL(a, b):
    return C_MUL(b, a)


_R_ADD._arith = _R_SUB._arith = _R_MUL._arith = True


class Series:
    __array_priority__ = 2000

    def __init__(self, data=None, index=None, dtype=None, name=None, copy=None):
        dt = norm_dtype(dtype)
        if isinstance(data, Series):
            vals, idx0 = list(data._vals), data.index
            name = data.name if name is None else name
            dt = dt or data._dtype
            if index is None:
                index = idx0
        elif isinstance(data, dict):
            keys = list(data.keys())
            vals = [data[k] for k in keys]
            if index is None:
                index = Index(keys)
            else:
                idx = index if isinstance(index, Index) else Index(index)
                vals = [data.get(k, NAN) for k in idx._vals]
        elif data is None:
            vals = [] if index is None else [NAN] * len(index)
        elif isinstance(data, (str, bytes)) or not _is_listlike(data):
            n = len(index) if index is not None else 1
            vals = [data] * n
        else:
            vals = list(data._d) if isinstance(data, np.ndarray) else list(
                data._vals if isinstance(data, Index) else data)
        self._vals = vals
        if index is None:
            index = default_index(len(vals))
        elif not isinstance(index, Index):
            index = Index(index)
        if len(index) != len(vals):
            raise ValueError(f"Length of values ({len(vals)}) does not match length of index ({len(index)})")
        self.index = index
        self.name = name
        self._dtype = dt
        if dt == "float64":
            self._vals = [NAN if v is None else (float(v) if isinstance(v, int) and not isinstance(v, bool) else v)
                          for v in self._vals]

    # -- construction helpers -------------------------------------------------
    def _new(self, vals, index=None, name="__same__", dtype="__auto__"):
        s = Series.__new__(Series)
        s._vals = vals
        s.index = self.index if index is None else index
        s.name = self.name if name == "__same__" else name
        if dtype == "__auto__":
            dtype = None
        elif dtype == "__keep__":
            dtype = self._dtype if self._dtype in _STICKY else None
        s._dtype = dtype
        return s

    # -- properties -----------------------------------------------------------
    @property
    def dtype(self):
        return DType(self._dtype or infer_dtype(self._vals))

    dtypes = dtype

    @property
    def values(self):
        return np.ndarray(list(self._vals), self._dtype)

    @property
    def array(self):
        return self.values

    @property
    def empty(self):
        return not self._vals

    @property
    def size(self):
        return len(self._vals)

    @property
    def shape(self):
        return (len(self._vals),)

    @property
    def is_unique(self):
        return len(self.unique()) == len(self._vals)

    @property
    def hasnans(self):
        return any(is_na(v) for v in self._vals)

    @property
    def str(self):
        if self.dtype.kind != "O":
            raise AttributeError("Can only use .str accessor with string values")
        return StrAccessor(self._vals, lambda out: self._new(out, dtype=None))

    @property
    def loc(self):
        return _SLoc(self)

    @property
    def iloc(self):
        return _SILoc(self)

    @property
    def at(self):
        return _SLoc(self)

    @property
    def iat(self):
        return _SILoc(self)

    def __len__(self):
        return len(self._vals)

    def __iter__(self):
        return iter(self._vals)

    def __repr__(self):
        return f"Series({dict(zip(map(repr, self.index._vals), self._vals))!r}, name={self.name!r}, dtype={self.dtype})"

    def __contains__(self, k):
        return k in self.index

    __hash__ = None

    def __bool__(self):
        raise ValueError("The truth value of a Series is ambiguous.")

    def __array__(self, *a, **k):
        raise E.Unsupported("Series passed to real numpy")

    # -- conversion -------------------------------------------------------------
    def copy(self, deep=True):
        return self._new(list(self._vals), index=self.index.copy(), dtype=self._dtype)

    def tolist(self):
        return list(self._vals)

    to_list = tolist

    def to_numpy(self, dtype=None, copy=False):
        return np.ndarray(list(self._vals), self._dtype)

    def to_dict(self):
        return {hashable_key(k) if not isinstance(k, E.SVal) else k: v for k, v in zip(self.index._vals, self._vals)}

    def to_frame(self, name=None):
        from .pdframe import DataFrame
        n = name if name is not None else (self.name if self.name is not None else 0)
        return DataFrame._from_cols({n: list(self._vals)}, self.index.copy(), {n: self._dtype})

    def items(self):
        return zip(self.index._vals, self._vals)

    def keys(self):
        return self.index

    def item(self):
        if len(self._vals) != 1:
            raise ValueError("can only convert an array of size 1 to a Python scalar")
        return self._vals[0]

    def squeeze(self):
        return self._vals[0] if len(self._vals) == 1 else self

    def rename(self, name=None, **kw):
        if isinstance(name, dict) or callable(name):
            f = (lambda k: name.get(k, k)) if isinstance(name, dict) else name
            return self._new(list(self._vals), index=Index([f(k) for k in self.index._vals], name=self.index.name),
                             dtype=self._dtype)
        return self._new(list(self._vals), name=name, dtype=self._dtype)

    def astype(self, t, errors="raise"):
        tn = norm_dtype(t)
        out = []
        for v in self._vals:
            if tn == "int64" or tn in INT_BITS:
                if is_na(v):
                    raise ValueError("Cannot convert non-finite values (NA or inf) to integer")
                out.append(wrap_int(E.sint(v) if not isinstance(v, str) else int(v), tn))
            elif tn in ("Int64", "Int32", "Int16"):
                out.append(v if is_na(v) else E.sint(v))
            elif tn == "float64":
                out.append(NAN if is_na(v) else (E.sfloat(v) if not isinstance(v, str) else float(v)))
            elif tn == "bool":
                out.append(_tobool(v) if not is_na(v) else True)
            elif tn == "str":
                if isinstance(v, E.SVal):
                    raise E.Unsupported("astype(str) of a symbolic value")
                out.append(v if is_na(v) else str(v))
            else:
                out.append(v)
        keep = tn if (tn in _STICKY or tn in INT_BITS) else (tn if not out else None)
        return self._new(out, dtype=keep)

    def infer_objects(self, copy=None):
        return self._new(list(self._vals), dtype=None)

    def convert_dtypes(self):
        return self.copy()

    # -- selection --------------------------------------------------------------
    def _take(self, pos):
        return self._new([self._vals[i] for i in pos], index=Index([self.index._vals[i] for i in pos],
                                                                   name=self.index.name, names=self.index._names),
                         dtype="__keep__" if self._dtype in _STICKY else self._dtype)

    def _mask_positions(self, mask):
        mv = _mask_cells(mask, self.index)
        if len(mv) != len(self._vals):
            raise IndexError("Boolean index has wrong length")
        return [i for i, m in enumerate(mv) if truth(m)]

    def __getitem__(self, k):
        if isinstance(k, slice):
            return self._take(range(len(self._vals))[k])
        if _is_mask(k):
            return self._take(self._mask_positions(k))
        if _is_listlike(k):
            pos = []
            for key in (np._cells(k) if np._cells(k) is not None else list(k)):
                p = self.index.positions(key)
                if not p:
                    raise KeyError(key)
                pos.extend(p)
            return self._take(pos)
        p = self.index.positions(k)
        if not p:
            if isinstance(k, int) and not any(isinstance(v, int) for v in self.index._vals):
                return self._vals[k]
            raise KeyError(k)
        return self._vals[p[0]] if len(p) == 1 else self._take(p)

    def __setitem__(self, k, v):
        if _is_mask(k):
            pos = self._mask_positions(k)
            vv = np._cells(v)
            for j, i in enumerate(pos):
                self._vals[i] = vv[j] if vv is not None else v
            self._dtype = self._dtype if self._dtype in _STICKY else None
            return
        p = self.index.positions(k)
        if not p:
            self._vals.append(v)
            self.index = Index(self.index._vals + [k], name=self.index.name)
        else:
            for i in p:
                self._vals[i] = v
        if self._dtype not in _STICKY:
            self._dtype = None

    def get(self, k, default=None):
        p = self.index.positions(k)
        return self._vals[p[0]] if p else default

    def head(self, n=5):
        return self._take(range(len(self._vals))[:n])

    def tail(self, n=5):
        return self._take(range(len(self._vals))[-n:] if n else [])

    def reindex(self, index=None, fill_value=NAN, **kw):
        idx = index if isinstance(index, Index) else Index(index)
        out = []
        for k in idx._vals:
            p = self.index.positions(k)
            out.append(self._vals[p[0]] if p else fill_value)
        return self._new(out, index=idx)

    def reset_index(self, drop=False, name=None, inplace=False, names=None):
        if drop:
            r = self._new(list(self._vals), index=default_index(len(self._vals)), dtype=self._dtype)
            if inplace:
                self.index = r.index
                return None
            return r
        from .pdframe import DataFrame
        iname = names if names is not None else (self.index.name if self.index.name is not None else "index")
        vname = name if name is not None else (self.name if self.name is not None else 0)
        return DataFrame._from_cols({iname: list(self.index._vals), vname: list(self._vals)},
                                    default_index(len(self._vals)), {vname: self._dtype})

    def sort_index(self, ascending=True, inplace=False, **kw):
        order = sort_positions([self.index._vals], ascending, stable=True)
        r = self._take(order)
        if inplace:
            self._vals, self.index = r._vals, r.index
            return None
        return r

    def sort_values(self, ascending=True, inplace=False, kind="quicksort", ignore_index=False, na_position="last",
                    **kw):
        if na_position != "last":
            raise E.Unsupported("sort_values: argument value outside the modelled subset")
        order = sort_positions([self._vals], ascending, stable=kind in ("stable", "mergesort"))
        r = self._take(order)
        if ignore_index:
            r.index = default_index(len(r))
        if inplace:
            self._vals, self.index = r._vals, r.index
            return None
        return r

    def drop(self, labels=None, index=None, inplace=False, errors="raise", **kw):
        labels = labels if labels is not None else index
        ll = list(labels) if _is_listlike(labels) else [labels]
        keep = [i for i, k in enumerate(self.index._vals) if not any(same_label(k, x) for x in ll)]
        r = self._take(keep)
        if inplace:
            self._vals, self.index = r._vals, r.index
            return None
        return r

    def drop_duplicates(self, keep="first"):
        if keep != "first":
            raise E.Unsupported("drop_duplicates: argument value outside the modelled subset")
        seen, pos = [], []
        for i, v in enumerate(self._vals):
            if not any(same_label(v, u) for u in seen):
                seen.append(v)
                pos.append(i)
        return self._take(pos)

    def unique(self):
        out = []
        for v in self._vals:
            if not any(same_label(v, u) for u in out):
                out.append(v)
        return np.ndarray(out)

    def nunique(self):
        return len([v for v in self.unique()._d if not is_na(v)])

    def value_counts(self):
        u = [v for v in self.unique()._d if not is_na(v)]
        cnt = [sum(1 for x in self._vals if same_label(x, v)) for v in u]
        order = sorted(range(len(u)), key=lambda i: -cnt[i])
        return Series([cnt[i] for i in order], index=Index([u[i] for i in order], name=self.name), name="count")

    def isin(self, vals):
        if isinstance(vals, (str, bytes)):
            raise TypeError("only list-like objects are allowed to be passed to isin()")
        vv = np._cells(vals)
        vv = list(vals) if vv is None else vv
        return self._new([E.sor(*[C_EQ(v, x) for x in vv]) for v in self._vals], dtype="bool")

    def between(self, lo, hi, inclusive="both"):
        if inclusive not in ("both", "left", "right", "neither"):
            raise ValueError("Inclusive has to be either string of 'both','left', 'right', or 'neither'.")
        a = (self >= lo) if inclusive in ("both", "left") else (self > lo)
        b = (self <= hi) if inclusive in ("both", "right") else (self < hi)
        return a & b

    def where(self, cond, other=NAN):
        cv = _mask_cells(cond, self.index)
        ov = np._cells(other)
        return self._new([E.site(c, v, (ov[i] if ov is not None else other))
                          for i, (c, v) in enumerate(zip(cv, self._vals))])

    def mask(self, cond, other=NAN):
        cv = _mask_cells(cond, self.index)
        ov = np._cells(other)
        return self._new([E.site(c, (ov[i] if ov is not None else other), v)
                          for i, (c, v) in enumerate(zip(cv, self._vals))])

    # -- missing data -----------------------------------------------------------
    def isna(self):
        return self._new([is_na(v) for v in self._vals], dtype="bool")

    isnull = isna

    def notna(self):
        return self._new([not is_na(v) for v in self._vals], dtype="bool")

    notnull = notna

    def dropna(self, inplace=False, **kw):
        r = self._take([i for i, v in enumerate(self._vals) if not is_na(v)])
        if inplace:
            self._vals, self.index = r._vals, r.index
            return None
        return r

    def fillna(self, value=None, inplace=False, **kw):
        if isinstance(value, Series):
            vv = value._aligned_to(self.index)
            out = [vv[i] if is_na(v) else v for i, v in enumerate(self._vals)]
        else:
            out = [value if is_na(v) else v for v in self._vals]
        if inplace:
            self._vals = out
            if self._dtype not in _STICKY:
                self._dtype = None
            return None
        return self._new(out, dtype="__keep__")

    def ffill(self):
        out, last = [], NAN
        for v in self._vals:
            last = last if is_na(v) else v
            out.append(last)
        return self._new(out)

    def replace(self, to_replace=None, value=None, inplace=False, **kw):
        if not isinstance(to_replace, dict):
            to_replace = {to_replace: value}
        out, changed = [], False
        for v in self._vals:
            nv = v
            for a, b in to_replace.items():
                if (is_na(a) and is_na(v)) or (not is_na(v) and not is_na(a) and same_label(v, a)):
                    nv, changed = b, True
                    break
            out.append(nv)
        dt = self._dtype
        if changed and self.dtype.name == "str" and not all(isinstance(v, str) or is_na(v) for v in out):
            dt = "object"
        elif self._dtype not in _STICKY:
            dt = None
        if inplace:
            self._vals, self._dtype = out, dt
            return None
        return self._new(out, dtype=dt)

    # -- elementwise ------------------------------------------------------------
    def _aligned_to(self, index):
        """values of self re-ordered to `index` (labels), NaN when missing."""
        if self.index.identical_concrete(index):
            return self._vals
        if all_concrete(self.index._vals) and all_concrete(index._vals):
            d = {}
            for k, v in zip(self.index._vals, self._vals):
                hk = hashable_key(k)
                if hk in d:
                    raise ValueError("cannot reindex on an axis with duplicate labels")
                d[hk] = v
            return [d.get(hashable_key(k), NAN) for k in index._vals]
        out = []
        for k in index._vals:
            p = self.index.positions(k)
            if len(p) > 1:
                raise ValueError("cannot reindex on an axis with duplicate labels")
            out.append(self._vals[p[0]] if p else NAN)
        return out

    def _narrow_result(self, o, op):
        """result dtype when integer arithmetic stays in a narrow dtype (numpy promotion; python scalars adopt it)"""
        if op not in (C_ADD, C_SUB, C_MUL) and getattr(op, "_arith", None) is None:
            return None
        a = self._dtype if self._dtype in INT_BITS else None
        if isinstance(o, Series):
            b = o._dtype if o._dtype in INT_BITS else None
            if a is None or b is None:
                return None
            return a if INT_BITS[a] >= INT_BITS[b] else b
        if a is not None and isinstance(o, (int, E.SInt)) and not isinstance(o, bool):
            return a
        return None

    def _binop(self, o, op, dtype=None):
        from .pdframe import DataFrame
        if isinstance(o, DataFrame):
            return NotImplemented
        if dtype is None:
            nd = self._narrow_result(o, op)
            if nd is not None:
                r = self._binop(o, op, dtype="__narrow__")
                r._vals = [wrap_int(v, nd) for v in r._vals]
                r._dtype = nd if not any(is_na(v) for v in r._vals) else None
                return r
        if dtype == "__narrow__":
            dtype = None
        if isinstance(o, Series):
            if self.index.identical_concrete(o.index):
                idx, a, b = self.index, self._vals, o._vals
            else:
                idx = self.index if self.index.equals(o.index) else self.index.union(o.index)
                a, b = self._aligned_to(idx), o._aligned_to(idx)
            name = self.name if self.name == o.name else None
            vals = [op(x, y) for x, y in zip(a, b)]
        else:
            c = np._cells(o)
            idx, name = self.index, self.name
            if c is not None:
                if len(c) != len(self._vals):
                    raise ValueError("Lengths must be equal")
                vals = [op(x, y) for x, y in zip(self._vals, c)]
            else:
                vals = [op(x, o) for x in self._vals]
        sticky = "object" if (self._dtype == "object" or getattr(o, "_dtype", None) == "object") and dtype is None \
            else dtype
        return self._new(vals, index=idx, name=name, dtype=sticky)

    def __add__(self, o): return self._binop(o, C_ADD)
    def __radd__(self, o): return self._binop(o, _R_ADD)
    def __sub__(self, o): return self._binop(o, C_SUB)
    def __rsub__(self, o): return self._binop(o, _R_SUB)
    def __mul__(self, o): return self._binop(o, C_MUL)
    def __rmul__(self, o): return self._binop(o, _R_MUL)
    def __truediv__(self, o): return self._binop(o, C_DIV)
    def __rtruediv__(self, o): return self._binop(o, lambda a, b: C_DIV(b, a))
    def __floordiv__(self, o): return self._binop(o, C_FLOORDIV)
    def __mod__(self, o): return self._binop(o, C_MOD)
    def __lt__(self, o): return self._binop(o, C_LT, "bool")
    def __le__(self, o): return self._binop(o, C_LE, "bool")
    def __gt__(self, o): return self._binop(o, C_GT, "bool")
    def __ge__(self, o): return self._binop(o, C_GE, "bool")
    def __eq__(self, o): return self._binop(o, C_EQ, "bool")
    def __ne__(self, o): return self._binop(o, C_NE, "bool")
    def __and__(self, o): return self._binop(o, C_AND, "bool")
    __rand__ = __and__
    def __or__(self, o): return self._binop(o, C_OR, "bool")
    __ror__ = __or__
    def __invert__(self): return self._new([E.snot(_tobool(v)) for v in self._vals], dtype="bool")
    def __neg__(self): return self._new([v if is_na(v) else -v for v in self._vals])
    def __abs__(self): return self._new([v if is_na(v) else abs(v) for v in self._vals])
    abs = __abs__

    add, sub, mul, div, truediv = __add__, __sub__, __mul__, __truediv__, __truediv__
    lt, le, gt, ge, eq, ne = __lt__, __le__, __gt__, __ge__, __eq__, __ne__

    def __round__(self, n=0):
        return self.round(n)

    def round(self, decimals=0):
        return self._new([v if is_na(v) else _round_cell(v, decimals) for v in self._vals])

    def clip(self, lower=None, upper=None, inplace=False, **kw):
        out = []
        for v in self._vals:
            if not is_na(v):
                if lower is not None:
                    v = E.smax(v, lower)
                if upper is not None:
                    v = E.smin(v, upper)
            out.append(v)
        if inplace:
            self._vals = out
            return None
        return self._new(out)

    def apply(self, f, convert_dtype=None, args=(), **kw):
        out = [f(v, *args, **kw) for v in self._vals]
        if out and all(isinstance(o, Series) for o in out):
            from .pdframe import DataFrame
            cols = list(out[0].index._vals)
            return DataFrame._from_cols({c: [o._vals[j] for o in out] for j, c in enumerate(cols)}, self.index.copy())
        return self._new(out, dtype=None)

    def map(self, f, na_action=None):
        if isinstance(f, dict):
            return self._new([f.get(hashable_key(v) if not isinstance(v, E.SVal) else E.cur().concretize(v), NAN)
                              for v in self._vals])
        if isinstance(f, Series):
            return self._new([f.get(v, NAN) for v in self._vals])
        return self._new([v if (na_action == "ignore" and is_na(v)) else f(v) for v in self._vals])

    def shift(self, periods=1, fill_value=NAN):
        n = len(self._vals)
        if periods >= 0:
            vals = [fill_value] * min(periods, n) + self._vals[:max(n - periods, 0)]
        else:
            vals = self._vals[-periods:] + [fill_value] * min(-periods, n)
        return self._new(vals, dtype="__keep__")

    def diff(self, periods=1):
        return self - self.shift(periods)

    def _cum(self, f):
        out, acc = [], None
        for v in self._vals:
            if is_na(v):
                out.append(NAN)
                continue
            acc = v if acc is None else f(acc, v)
            out.append(acc)
        return self._new(out, dtype="object" if self._dtype == "object" else None)

    def cumsum(self, **kw):
        return self._cum(lambda a, b: a + b)

    def cummax(self, **kw):
        return self._cum(E.smax)

    def cummin(self, **kw):
        return self._cum(E.smin)

    # -- reductions ----------------------------------------------------------------
    def _valid(self):
        return [v for v in self._vals if not is_na(v)]

    def sum(self, **kw):
        acc = 0
        for v in self._valid():
            acc = acc + v
        if self.dtype.name == "float64" and isinstance(acc, int):
            acc = float(acc)
        return np_scalar(acc)

    def count(self):
        return len(self._valid())

    def min(self, **kw):
        v = self._valid()
        return np._fold(v, E.smin, None) if v else NAN

    def max(self, **kw):
        v = self._valid()
        return np._fold(v, E.smax, None) if v else NAN

    def mean(self, **kw):
        v = self._valid()
        if not v:
            return NAN
        return C_DIV(self.sum(), len(v))

    def median(self, **kw):
        return self.quantile(0.5)

    def std(self, ddof=1, **kw):
        v = self._valid()
        if len(v) <= ddof:
            return NAN
        if all_concrete(v):
            m = sum(v) / len(v)
            return (sum((x - m) ** 2 for x in v) / (len(v) - ddof)) ** 0.5
        # no property speaks about the standard deviation: unconstrained non-negative real
        r = E.cur().fresh_real("std")
        E.cur().add(r.z >= 0)
        return r

    def var(self, ddof=1, **kw):
        s = self.std(ddof)
        return s if is_na(s) else s * s

    def quantile(self, q=0.5, interpolation="linear"):
        if interpolation != "linear":
            raise E.Unsupported("quantile: argument value outside the modelled subset")
        v = self._valid()
        sv = [v[i] for i in sort_positions([v])]
        if _is_listlike(q):
            return Series([_quantile(sv, x) for x in q], index=Index(list(q)), name=self.name)
        return _quantile(sv, q)

    def all(self, **kw):
        return E.sand(*[_tobool(v) for v in self._valid()])

    def any(self, **kw):
        return E.sor(*[_tobool(v) for v in self._valid()])

    def idxmax(self):
        best = None
        for i, v in enumerate(self._vals):
            if is_na(v):
                continue
            if best is None or bool(v > self._vals[best]):
                best = i
        return self.index._vals[best]

    def idxmin(self):
        best = None
        for i, v in enumerate(self._vals):
            if is_na(v):
                continue
            if best is None or bool(v < self._vals[best]):
                best = i
        return self.index._vals[best]

    def rank(self, method="average", ascending=True, na_option="keep", pct=False, **kw):
        """ranks as ite sums (no forking): min = 1 + #smaller, max = #smaller-or-equal, average = their mean,
        first = min + #equal earlier, dense = 1 + #distinct smaller"""
        if na_option != "keep":
            raise E.Unsupported("rank: argument value outside the modelled subset")
        vals = self._vals
        out = []
        for i, v in enumerate(vals):
            if is_na(v):
                out.append(NAN)
                continue
            less = eq_before = leq = 0
            for j, w in enumerate(vals):
                if is_na(w):
                    continue
                lt = (w < v) if ascending else (w > v)
                e = E.seq(w, v)
                less = less + E.site(lt, 1, 0)
                leq = leq + E.site(E.sor(lt, e), 1, 0)
                if j < i:
                    eq_before = eq_before + E.site(e, 1, 0)
            if method == "min":
                out.append(less + 1)
            elif method == "max":
                out.append(leq)
            elif method == "first":
                out.append(less + 1 + eq_before)
            elif method == "average":
                out.append((less + 1 + leq) / 2)
            elif method == "dense":
                d = 0
                seen = []
                for j, w in enumerate(vals):
                    if is_na(w):
                        continue
                    lt = (w < v) if ascending else (w > v)
                    first_of_its_value = E.sand(*[E.snot(E.seq(w, u)) for u in seen]) if seen else True
                    d = d + E.site(E.sand(lt, first_of_its_value), 1, 0)
                    seen.append(w)
                out.append(d + 1)
            else:
                raise E.Unsupported(f"rank method {method}")
        if pct:
            n = len([v for v in vals if not is_na(v)])
            out = [o if is_na(o) else o / n for o in out]
        return self._new(out)

    def argsort(self, **kw):
        order = sort_positions([self._vals], True, stable=kw.get("kind") in ("stable", "mergesort"))
        return self._new(order)

    def nlargest(self, n=5, keep="first"):
        if keep != "first":
            raise E.Unsupported("nlargest: argument value outside the modelled subset")
        order = sort_positions([self._vals], False, stable=True)
        return self._take([i for i in order if not is_na(self._vals[i])][:n])

    def nsmallest(self, n=5, keep="first"):
        if keep != "first":
            raise E.Unsupported("nsmallest: argument value outside the modelled subset")
        order = sort_positions([self._vals], True, stable=True)
        return self._take([i for i in order if not is_na(self._vals[i])][:n])

    def cumprod(self, **kw):
        return self._cum(lambda a, b: a * b)

    def prod(self, **kw):
        acc = 1
        for v in self._valid():
            acc = acc * v
        return acc

    def mode(self):
        raise E.Unsupported("Series.mode")

    def duplicated(self, keep="first"):
        if keep != "first":
            raise E.Unsupported("duplicated: argument value outside the modelled subset")
        seen, out = [], []
        for v in self._vals:
            d = any(same_label(v, u) for u in seen)
            out.append(d)
            if not d:
                seen.append(v)
        return self._new(out, dtype="bool")

    def to_string(self, *a, **k):
        return repr(self)

    def describe(self, **kw):
        names = ["count", "mean", "std", "min", "25%", "50%", "75%", "max"]
        vals = [float(self.count()) if True else 0, self.mean(), self.std(), self.min(), self.quantile(0.25),
                self.quantile(0.5), self.quantile(0.75), self.max()]
        return Series(vals, index=Index(names), name=self.name)

    def agg(self, f):
        if isinstance(f, (list, tuple)):
            return Series([self.agg(x) for x in f], index=Index(list(f)), name=self.name)
        return getattr(self, f)() if isinstance(f, str) else f(self)

    aggregate = agg

    def groupby(self, by=None, level=None, sort=True, **kw):
        from .pdops import GroupBy
        from .pdframe import DataFrame
        df = DataFrame._from_cols({"__v": list(self._vals)}, self.index.copy())
        if isinstance(by, Series):
            df["__k"] = by
            return GroupBy(df, ["__k"], sort=sort)["__v"]._named(self.name)
        raise E.Unsupported("Series.groupby form")

    def explode(self, ignore_index=False):
        vals, idx = [], []
        for k, v in zip(self.index._vals, self._vals):
            if isinstance(v, (list, tuple, np.ndarray)):
                vv = list(v)
                if not vv:
                    vals.append(NAN)
                    idx.append(k)
                for x in vv:
                    vals.append(x)
                    idx.append(k)
            else:
                vals.append(v)
                idx.append(k)
        return self._new(vals, index=default_index(len(vals)) if ignore_index else Index(idx, name=self.index.name))

    def equals(self, o):
        return isinstance(o, Series) and len(o) == len(self) and all(
            same_label(a, b) for a, b in zip(self._vals, o._vals)) and self.index.equals(o.index)


def _round_cell(v, n):
    if isinstance(v, (E.SInt, int)) and not isinstance(v, bool):
        return v
    if isinstance(v, E.SVal):
        return E.sround(v, n)
    return round(v, n)


def _is_mask(k):
    if isinstance(k, Series):
        return k.dtype.name == "bool" or (len(k._vals) > 0 and all(isinstance(v, (bool, E.SBool)) for v in k._vals))
    c = np._cells(k)
    if c is not None and not isinstance(k, (list, tuple)) or isinstance(k, list):
        c = c if c is not None else list(k)
        return len(c) > 0 and all(isinstance(v, (bool, E.SBool)) for v in c)
    return False


def _mask_cells(mask, index):
    if isinstance(mask, Series):
        if mask.index.identical_concrete(index):
            return mask._vals
        if len(mask) == len(index) and mask.index.equals(index):
            return mask._vals
        return mask._aligned_to(index)
    c = np._cells(mask)
    if c is None:
        raise TypeError("not a mask")
    return c


class _SLoc:
    def __init__(self, s):
        self.s = s

    def __getitem__(self, k):
        if callable(k):
            k = k(self.s)
        return self.s[k]

    def __setitem__(self, k, v):
        s = self.s
        if _is_mask(k):
            s[k] = v
            return
        if _is_listlike(k):
            kk = np._cells(k) if np._cells(k) is not None else list(k)
            vv = np._cells(v)
            for j, key in enumerate(kk):
                s[key] = vv[j] if vv is not None else v
            return
        s[k] = v


class _SILoc:
    def __init__(self, s):
        self.s = s

    def __getitem__(self, k):
        s = self.s
        if isinstance(k, slice):
            return s._take(range(len(s._vals))[k])
        if _is_listlike(k):
            return s._take([np._idx(i) for i in k])
        return s._vals[np._idx(k)]

    def __setitem__(self, k, v):
        self.s._vals[np._idx(k)] = v
