"""Independent definitions over intervals, written once for symbolic and concrete cells.

Nothing here sorts or sweeps (HTA's algorithms do): measures come from inclusion-exclusion
over `max(0, min(ends) - max(starts))` terms, which stay linear `ite` terms for the solver."""
from itertools import combinations

from symx.engine import smax, smin


def _fold(f, xs):
    acc = xs[0]
    for x in xs[1:]:
        acc = f(acc, x)
    return acc


def inter_len(ivs):
    """length of the intersection of half-open intervals [s, e)."""
    lo = _fold(smax, [s for s, _ in ivs])
    hi = _fold(smin, [e for _, e in ivs])
    return smax(0, hi - lo)


def union_len(ivs):
    """measure of the union of intervals (empty list -> 0)."""
    total = 0
    n = len(ivs)
    for k in range(1, n + 1):
        sign = 1 if k % 2 == 1 else -1
        for sub in combinations(ivs, k):
            total = total + sign * inter_len(list(sub))
    return total


def both_len(a, b):
    """measure of (union a) ∩ (union b) = |∪a| + |∪b| - |∪(a ∪ b)|."""
    if not a or not b:
        return 0
    return union_len(a) + union_len(b) - union_len(list(a) + list(b))


def exactly_len(groups, on):
    """measure of the set of instants at which exactly the groups in `on` (indices) have a running
    interval and the other groups have none.  Mobius inversion over union measures:
      |∩_{i in on} U_i \\ ∪_{j off} U_j|, computed with  |A \\ B| = |A ∪ B| - |B|  and
      |∩ U_i| by inclusion-exclusion over unions."""
    on = list(on)
    off = [j for j in range(len(groups)) if j not in on]
    offs = [iv for j in off for iv in groups[j]]

    def meas_inter_with_off_union(sel):
        # | (∪_{i in sel} U_i) ∪ OFF |
        return union_len([iv for i in sel for iv in groups[i]] + offs)

    # |∩_{i in on} U_i ∪ OFF| = Σ_{∅≠S⊆on} (-1)^{|S|+1} |∪_{i∈S} U_i ∪ OFF|   (inclusion-exclusion dual)
    total = 0
    for k in range(1, len(on) + 1):
        sign = 1 if k % 2 == 1 else -1
        for S in combinations(on, k):
            total = total + sign * meas_inter_with_off_union(S)
    return total - union_len(offs)
