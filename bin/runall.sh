#!/bin/sh
# run every claimed check of a tier sequentially; one summary line each
tier=${1:-quick}
cd /verif
for p in $(python3 -c "import json; print(' '.join(c['property_id'] for c in json.load(open('MANIFEST.json'))['checks']))"); do
  t0=$(date +%s); out=$(./vcheck $p --tier $tier 2>&1); rc=$?; t1=$(date +%s)
  echo "$p exit=$rc wall=$((t1-t0))s $(echo "$out" | grep -m1 '^\[' | sed 's/.*paths=/paths=/' | cut -c1-150) $(echo "$out" | grep -c INCONCLUSIVE) inconclusive-lines"
done
