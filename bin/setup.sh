#!/bin/sh
# Build the overlay venv (offline). Idempotent; called by setup_cmd and by every check.
set -e
V=/verif/.venv
if [ ! -x "$V/bin/python" ] || ! "$V/bin/python" -c "import z3, pandas, crosshair" >/dev/null 2>&1; then
  rm -rf "$V"
  /venv/bin/python -m venv "$V"
  SP=$("$V/bin/python" -c "import site; print(site.getsitepackages()[0])")
  echo "import site; site.addsitedir('/venv/lib/python3.12/site-packages')" > "$SP/overlay.pth"
  PIP_NO_INDEX=1 "$V/bin/pip" install -q --no-index --find-links /opt/veriftools/wheels z3-solver cvc5 crosshair-tool >/dev/null 2>&1 || \
  PIP_NO_INDEX=1 "$V/bin/pip" install -q --no-index --find-links /opt/veriftools/wheels z3-solver
fi
"$V/bin/python" -c "import z3; print('z3', z3.get_version_string())"
