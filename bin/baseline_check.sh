#!/bin/sh
# run the repository's suite and compare the set of passing tests with BASELINE.json's stable_pass
cd /repo && /venv/bin/python -m pytest -ra -q -p no:cacheprovider --timeout=900 --continue-on-collection-errors --junitxml=/tmp/base.junit.xml > /tmp/base.log 2>&1
/venv/bin/python - <<'PY'
import json, xml.etree.ElementTree as ET
b=set(json.load(open('/root/.vp/BASELINE.json'))['stable_pass'])
ok=set()
for tc in ET.parse('/tmp/base.junit.xml').getroot().iter('testcase'):
    if not any(c.tag in ('failure','error','skipped') for c in tc):
        ok.add(f"{tc.get('classname')}::{tc.get('name')}")
print("baseline", len(b), "passing now", len(ok), "missing", sorted(b-ok), "newly passing", len(ok-b))
PY
