#!/usr/bin/env python3
"""rewrite the last column (paths / wall) of the per-property table in DESIGN.md §6 from the evidence files"""
import json, re, os
p = '/verif/DESIGN.md'
s = open(p).read()
def repl(m):
    pid = m.group(1)
    f = f'/verif/evidence/{pid}.json'
    if not os.path.exists(f):
        return m.group(0)
    e = json.load(open(f))
    if e.get('tier') != 'quick':
        return m.group(0)
    paths = e['coverage'].get('paths')
    wall = e.get('wall_s')
    ptxt = f"{paths:,}".replace(",", " ") if paths < 10000 else f"{round(paths/1000)} k"
    return m.group(0)[:m.group(0).rindex('|', 0, len(m.group(0)) - 1) + 1] + f" {ptxt} / {round(wall)} s |"
a = s.index('## 6. Per-property checks as built')
b = s.index('## 7. Not applicable')
sec = re.sub(r'^\| (C\d\d) \|[^\n]*\| [^|\n]* \|$', repl, s[a:b], flags=re.M)
s2 = s[:a] + sec + s[b:]
open(p, 'w').write(s2)
print("rows updated:", sum(1 for a, b in zip(s.split('\n'), s2.split('\n')) if a != b))
