#!/bin/sh
# usage: bin/seedcheck.sh <patch.diff> <Cxx> [<Cyy> ...] [--tier quick|thorough]
# applies a seeded change to /repo, runs the named checks, restores /repo; prints one line per check.
patch="$1"; shift
tier=quick
props=""
while [ $# -gt 0 ]; do
  case "$1" in --tier) tier="$2"; shift 2;; *) props="$props $1"; shift;; esac
done
cd /repo || exit 2
if [ -n "$(git status --porcelain -- hta)" ]; then echo "refusing: /repo/hta has local changes" >&2; exit 2; fi
trap 'git -C /repo checkout -- . >/dev/null 2>&1' EXIT INT TERM
git apply "$patch" || { echo "patch does not apply" >&2; exit 2; }
cd /verif
export VERIF_EVIDENCE_DIR=/tmp/verif-seed-evidence
for p in $props; do
  out=$(./vcheck "$p" --tier "$tier" 2>&1); rc=$?
  v=$(echo "$out" | grep -c '^VIOLATION')
  echo "SEEDCHECK patch=$patch check=$p tier=$tier exit=$rc violations=$v $(echo "$out" | grep -m1 'clause=' | sed 's/^ *//')"
done
