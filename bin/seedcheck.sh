#!/bin/sh
# usage: bin/seedcheck.sh <patch.diff> <Cxx> [<Cyy> ...] [--tier quick|thorough]
# applies a seeded change to a scratch worktree of /repo's HEAD (never to /repo itself), points the machinery at it
# (VERIF_REPO), runs the named checks, removes the worktree; prints one line per check.  Evidence of these runs goes to
# /tmp, never to /verif/evidence.
patch="$1"; shift
tier=quick
props=""
while [ $# -gt 0 ]; do
  case "$1" in --tier) tier="$2"; shift 2;; *) props="$props $1"; shift;; esac
done
WT=$(mktemp -d /tmp/seedwt.XXXXXX); rmdir $WT
git -C /repo worktree add -q --detach $WT HEAD || exit 2
trap 'git -C /repo worktree remove --force $WT >/dev/null 2>&1; git -C /repo worktree prune' EXIT INT TERM
git -C $WT apply "$patch" || { echo "patch does not apply" >&2; exit 2; }
cd /verif
export VERIF_EVIDENCE_DIR=/tmp/verif-seed-evidence VERIF_REPO=$WT
for p in $props; do
  out=$(./vcheck "$p" --tier "$tier" 2>&1); rc=$?
  v=$(echo "$out" | grep -c '^VIOLATION')
  echo "SEEDCHECK patch=$patch check=$p tier=$tier exit=$rc violations=$v $(echo "$out" | grep -m1 'clause=' | sed 's/^ *//')"
done
