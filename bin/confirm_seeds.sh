#!/bin/sh
# confirm every seeded change in a scratch worktree: patch applies, demo passes without / fails with it,
# the repository's suite passes exactly the same tests as on the unmodified HEAD.  Sequential (tests share /tmp paths).
OUT=/tmp/confirm_seeds.log; : > $OUT
WT=/tmp/confirm_wt
git -C /repo worktree remove --force $WT 2>/dev/null; git -C /repo worktree prune
git -C /repo worktree add -q $WT HEAD
passset() { cd $WT && PYTHONPATH=$WT /venv/bin/python -m pytest -q -p no:cacheprovider --timeout=900 tests --junitxml=/tmp/confirm.junit.xml >/dev/null 2>&1
  /venv/bin/python - <<'PY'
import xml.etree.ElementTree as ET
ok=sorted(f"{tc.get('classname')}::{tc.get('name')}" for tc in ET.parse('/tmp/confirm.junit.xml').getroot().iter('testcase') if not any(c.tag in ('failure','error','skipped') for c in tc))
print("\n".join(ok))
PY
}
passset > /tmp/confirm_base.txt
echo "baseline passing: $(wc -l < /tmp/confirm_base.txt)" >> $OUT
for d in ${SEEDS:-/verif/seeded/C*}; do
  id=$(basename $d)
  cd $WT && git checkout -q -- . && git clean -fdq
  (cd /tmp && PYTHONPATH=$WT timeout 600 /venv/bin/python $d/demo.py >/tmp/confirm_demo0.txt 2>&1); rc0=$?
  if git -C $WT apply $d/patch.diff 2>/dev/null; then applied=yes; else applied=NO; fi
  (cd /tmp && PYTHONPATH=$WT timeout 600 /venv/bin/python $d/demo.py >/tmp/confirm_demo1.txt 2>&1); rc1=$?
  passset > /tmp/confirm_after.txt
  missing=$(comm -23 /tmp/confirm_base.txt /tmp/confirm_after.txt | tr '\n' ' ')
  echo "SEED $id applied=$applied demo_unpatched=$rc0 demo_patched=$rc1 passing_after=$(wc -l < /tmp/confirm_after.txt) missing=[$missing]" >> $OUT
done
cd /repo && git worktree remove --force $WT && git worktree prune
echo DONE >> $OUT
