#!/bin/sh
# usage: bin/run_thorough_subset.sh C01 C02 ...   (sequential; one summary line each)
cd "$(dirname "$0")/.." || exit 2
for p in "$@"; do
  t0=$(date +%s); out=$(./vcheck $p --tier thorough 2>&1); rc=$?; t1=$(date +%s)
  echo "$p exit=$rc wall=$((t1-t0))s $(echo "$out" | grep -m1 '^\[' | cut -c1-260)"
  echo "$out" | grep -E "VIOLATION|INCONCLUSIVE|HARNESS" | head -5
done
