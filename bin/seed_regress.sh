#!/bin/sh
# run every kept seeded change against the check of its property (quick tier); one line each in /tmp/seed_regress.log
OUT=${OUT:-/tmp/seed_regress.log}; : > $OUT
for d in ${SEEDS:-/verif/seeded/C*}; do
  id=$(basename $d); p=$(echo $id | cut -c1-3)
  /verif/bin/seedcheck.sh $d/patch.diff $p 2>&1 | tail -1 | cut -c1-260 >> $OUT
done
echo DONE >> $OUT
