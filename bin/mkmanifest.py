#!/usr/bin/env python3
"""Regenerate MANIFEST.json from the per-property table below (keeps it valid at all times)."""
import json, os
V = os.path.dirname(os.path.dirname(os.path.abspath(__file__)))
props = [json.loads(l) for l in open(os.path.join(V, "properties.jsonl"))]
claims = json.load(open(os.path.join(V, "bin", "claims.json")))
checks, na = [], []
for p in props:
    pid = p["id"]
    c = claims.get(pid)
    if not c or c.get("not_applicable"):
        na.append({"property_id": pid, "reason": (c or {}).get("not_applicable", "not yet covered by a check")})
        continue
    checks.append({
        "property_id": pid,
        "quick_cmd": f"./vcheck {pid} --tier quick",
        "thorough_cmd": f"./vcheck {pid} --tier thorough",
        "evidence_file": f"/verif/evidence/{pid}.json",
        "replay_cmd_template": f"./vcheck {pid} --replay {{path}}",
        "engine": "symx",
        "level_claimed": {"category": "other", "text": c["text"], "design_ref": c.get("design_ref", "DESIGN.md §6 " + pid)},
        "level_note": c["note"],
        "technique": c.get("technique", "bounded symbolic execution of the real hta code over a symbolic pandas model; z3 decides each path obligation"),
    })
m = {
    "version": 1,
    "setup_cmd": "./bin/setup.sh",
    "hooks": {"guard": "HTA_VERIF", "enable": "none needed: substitution happens from outside via sys.modules; HTA_VERIF is a nominal guard with no source commits",
              "baseline_off_cmd": "cd /repo && /venv/bin/python -m pytest -ra -q -p no:cacheprovider --timeout=900 --continue-on-collection-errors",
              "source_commits": [], "add_only": True},
    "engines": [{"name": "symx", "path": "/verif/symx", "serves_properties": [c["property_id"] for c in checks],
                 "kind_free_text": "in-process dynamic symbolic execution (DFS over decision prefixes, z3 incremental), symbolic pandas/numpy model, native replay of counterexamples"}],
    "checks": checks,
    "not_applicable": na,
    "notes": "See DESIGN.md. Exit 0 = all decided obligations held; exit 1 + VIOLATION line = natively reproduced, unlisted counterexample; exit 2 = harness error.",
}
json.dump(m, open(os.path.join(V, "MANIFEST.json"), "w"), indent=1)
print("checks:", [c["property_id"] for c in checks])
